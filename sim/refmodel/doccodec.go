package refmodel

import (
	"errors"
	"fmt"
	"math"
	"math/big"
)

// DocCodec is an independent implementation of the binary wire format, written
// only from the block comments in ddsketch/encoding/flag.go and the doc
// comments of the primitive codecs in ddsketch/encoding/encoding.go:
//
//   - a flag is one byte: type in the 2 least significant bits (00 sketch
//     features, 10 index mapping, 01 positive store, 11 negative store), subflag in
//     the 6 most significant bits;
//   - uvarint64: 7 bits at a time, least significant group first, continuation
//     bit 0x80, at most 9 bytes, the ninth carries 8 bits;
//   - varint64: zig-zag, then uvarint64;
//   - float64LE: 8 bytes, least significant first;
//   - varfloat64: bits(v+1) - bits(1), rotated left by 6, then 7 bits at a time
//     most significant group first, at most 9 bytes, the ninth carries 8 bits;
//     trailing zero groups are dropped.
//
// It deliberately uses math/big arithmetic instead of the shift idioms of the
// implementation, so that a defect cannot be copied from one to the other.

var ErrDocShort = errors.New("doccodec: input ends inside a block")

var two64 = new(big.Int).Lsh(big.NewInt(1), 64)

func DocUvarint(b []byte) (v uint64, n int, err error) {
	acc := new(big.Int)
	mul := big.NewInt(1)
	for i := 0; i < 9; i++ {
		if i >= len(b) {
			return 0, 0, ErrDocShort
		}
		c := int64(b[i])
		last := i == 8 || c < 128
		if !last {
			c -= 128
		}
		acc.Add(acc, new(big.Int).Mul(big.NewInt(c), mul))
		mul = new(big.Int).Mul(mul, big.NewInt(128))
		if last {
			acc.Mod(acc, two64)
			return acc.Uint64(), i + 1, nil
		}
	}
	panic("unreachable")
}

func DocPutUvarint(v uint64) []byte {
	x := new(big.Int).SetUint64(v)
	var out []byte
	b128 := big.NewInt(128)
	for i := 0; i < 8; i++ {
		if x.Cmp(b128) < 0 {
			break
		}
		q, r := new(big.Int).QuoRem(x, b128, new(big.Int))
		out = append(out, byte(r.Int64())+128)
		x = q
	}
	return append(out, byte(x.Int64()))
}

func DocVarint(b []byte) (int64, int, error) {
	u, n, err := DocUvarint(b)
	if err != nil {
		return 0, 0, err
	}
	// zig-zag: even -> u/2, odd -> -(u+1)/2
	x := new(big.Int).SetUint64(u)
	half := new(big.Int).Quo(x, big.NewInt(2))
	if u%2 == 1 {
		half.Add(half, big.NewInt(1))
		half.Neg(half)
	}
	return half.Int64(), n, nil
}

func DocPutVarint(v int64) []byte {
	x := big.NewInt(v)
	z := new(big.Int).Mul(x, big.NewInt(2))
	if v < 0 {
		z.Neg(z)
		z.Sub(z, big.NewInt(1))
	}
	return DocPutUvarint(z.Uint64())
}

func DocFloat64LE(b []byte) (float64, int, error) {
	if len(b) < 8 {
		return 0, 0, ErrDocShort
	}
	acc := new(big.Int)
	for i := 7; i >= 0; i-- {
		acc.Mul(acc, big.NewInt(256))
		acc.Add(acc, big.NewInt(int64(b[i])))
	}
	return math.Float64frombits(acc.Uint64()), 8, nil
}

func DocPutFloat64LE(v float64) []byte {
	x := new(big.Int).SetUint64(math.Float64bits(v))
	out := make([]byte, 8)
	for i := 0; i < 8; i++ {
		q, r := new(big.Int).QuoRem(x, big.NewInt(256), new(big.Int))
		out[i] = byte(r.Int64())
		x = q
	}
	return out
}

var bitsOfOne = new(big.Int).SetUint64(math.Float64bits(1))

// rotl64 rotates a 64-bit value left by k bits, arithmetically.
func rotl64(x *big.Int, k uint) *big.Int {
	hi := new(big.Int).Lsh(x, k)
	hi.Mod(hi, two64)
	lo := new(big.Int).Rsh(x, 64-k)
	return hi.Add(hi, lo)
}

func DocVarfloat(b []byte) (float64, int, error) {
	// groups arrive most significant first: 8 groups of 7 bits, then 8 bits
	acc := new(big.Int)
	used := 0
	n := 0
	for i := 0; i < 9; i++ {
		if i >= len(b) {
			return 0, 0, ErrDocShort
		}
		c := int64(b[i])
		n = i + 1
		if i == 8 {
			acc.Lsh(acc, 8)
			acc.Add(acc, big.NewInt(c))
			used += 8
			break
		}
		more := c >= 128
		if more {
			c -= 128
		}
		acc.Lsh(acc, 7)
		acc.Add(acc, big.NewInt(c))
		used += 7
		if !more {
			break
		}
	}
	acc.Lsh(acc, uint(64-used)) // dropped trailing groups are zero
	x := rotl64(acc, 64-6)      // undo the rotation to the left by 6
	x.Add(x, bitsOfOne)
	x.Mod(x, two64)
	return math.Float64frombits(x.Uint64()) - 1, n, nil
}

func DocPutVarfloat(v float64) []byte {
	x := new(big.Int).SetUint64(math.Float64bits(v + 1))
	x.Sub(x, bitsOfOne)
	x.Mod(x, two64)
	x = rotl64(x, 6)
	var out []byte
	rest := new(big.Int).Set(x) // 64 bits still to emit, most significant first
	bitsLeft := 64
	for i := 0; i < 8; i++ {
		g := new(big.Int).Rsh(rest, uint(bitsLeft-7))
		rest.Sub(rest, new(big.Int).Lsh(g, uint(bitsLeft-7)))
		bitsLeft -= 7
		if rest.Sign() == 0 {
			return append(out, byte(g.Int64()))
		}
		out = append(out, byte(g.Int64())+128)
	}
	return append(out, byte(rest.Int64()))
}

// VarfloatTransform is the documented value a varfloat64 round trip returns.
func VarfloatTransform(v float64) float64 { return (v + 1) - 1 }

// ---- blocks -------------------------------------------------------------------------

const (
	DocTypeFeature  = 0
	DocTypePositive = 1
	DocTypeMapping  = 2
	DocTypeNegative = 3
)

type DocBlock struct {
	Start, End int // byte offsets: [Start, End)
	Type       int
	Sub        int
	// decoded payload
	F64     []float64 // feature value, or gamma and offset
	Indexes []int64
	Counts  []float64
	Defined bool // the flag is one of those defined in flag.go
}

// DocMappingKind maps the mapping subflag to the interpolation name.
func DocMappingKind(sub int) string {
	switch sub {
	case 0:
		return "log"
	case 1:
		return "lin"
	case 2:
		return "quadratic"
	case 3:
		return "cub"
	case 4:
		return "quartic"
	}
	return ""
}

// DocDefinedFlag reports whether flag.go defines the flag byte.
func DocDefinedFlag(flag byte) bool {
	t, sub := int(flag&3), int(flag>>2)
	switch t {
	case DocTypeFeature:
		return sub == 1 || sub == 0x28 || sub == 0x21 || sub == 0x22 || sub == 0x23
	case DocTypeMapping:
		return sub >= 0 && sub <= 4
	default:
		return sub >= 1 && sub <= 3
	}
}

// DocParse splits a stream into blocks. It stops with ErrDocShort if the input
// ends inside a block (the blocks parsed so far are returned) and with another
// error at an undefined flag.
func DocParse(b []byte) ([]DocBlock, error) {
	var blocks []DocBlock
	pos := 0
	for pos < len(b) {
		blk := DocBlock{Start: pos, Type: int(b[pos] & 3), Sub: int(b[pos] >> 2), Defined: DocDefinedFlag(b[pos])}
		if !blk.Defined {
			return blocks, fmt.Errorf("doccodec: undefined flag %#x at offset %d", b[pos], pos)
		}
		p := pos + 1
		take := func(f func([]byte) (float64, int, error)) (float64, error) {
			v, n, err := f(b[p:])
			if err != nil {
				return 0, err
			}
			p += n
			return v, nil
		}
		takeI := func() (int64, error) {
			v, n, err := DocVarint(b[p:])
			if err != nil {
				return 0, err
			}
			p += n
			return v, nil
		}
		var err error
		switch blk.Type {
		case DocTypeFeature:
			var v float64
			if blk.Sub == 1 || blk.Sub == 0x28 {
				v, err = take(DocVarfloat)
			} else {
				v, err = take(DocFloat64LE)
			}
			blk.F64 = []float64{v}
		case DocTypeMapping:
			var g, o float64
			if g, err = take(DocFloat64LE); err == nil {
				o, err = take(DocFloat64LE)
			}
			blk.F64 = []float64{g, o}
		default:
			var n uint64
			var k int
			n, k, err = DocUvarint(b[p:])
			if err != nil {
				break
			}
			p += k
			switch blk.Sub {
			case 1, 2:
				idx := int64(0)
				for i := uint64(0); i < n && err == nil; i++ {
					var d int64
					if d, err = takeI(); err != nil {
						break
					}
					idx += d
					c := 1.0
					if blk.Sub == 1 {
						if c, err = take(DocVarfloat); err != nil {
							break
						}
					}
					blk.Indexes = append(blk.Indexes, idx)
					blk.Counts = append(blk.Counts, c)
				}
			case 3:
				var first, stride int64
				if first, err = takeI(); err != nil {
					break
				}
				if stride, err = takeI(); err != nil {
					break
				}
				idx := first
				for i := uint64(0); i < n; i++ {
					var c float64
					if c, err = take(DocVarfloat); err != nil {
						break
					}
					blk.Indexes = append(blk.Indexes, idx)
					blk.Counts = append(blk.Counts, c)
					idx += stride
				}
			}
		}
		if err != nil {
			return blocks, err
		}
		blk.End = p
		blocks = append(blocks, blk)
		pos = p
	}
	return blocks, nil
}

// DocContent is what the documentation assigns to a sequence of blocks.
type DocContent struct {
	Pos, Neg   map[int]float64
	Zero       float64
	HasMapping bool
	MapKind    string
	Gamma      float64
	Offset     float64
	// exact summary statistics blocks (ignored by a plain decoder)
	Count, Sum float64
	Min, Max   float64
	HasStats   bool
	// MinGran: the finest granule among the individual weights added up (0 if all are integers);
	// NotDyadic: some weight is not a supported dyadic number. Sums are exact only inside the budget.
	MinGran   int
	NotDyadic bool
}

func (c *DocContent) noteWeight(w float64) {
	g, ok := GranOf(w)
	if !ok {
		c.NotDyadic = true
		return
	}
	if g < c.MinGran {
		c.MinGran = g
	}
}

func NewDocContent() *DocContent {
	return &DocContent{Pos: map[int]float64{}, Neg: map[int]float64{}, Min: math.Inf(1), Max: math.Inf(-1)}
}

// Apply adds the meaning of the blocks (repeated blocks and repeated indexes add up).
func (c *DocContent) Apply(blocks []DocBlock) {
	for _, blk := range blocks {
		switch blk.Type {
		case DocTypeFeature:
			switch blk.Sub {
			case 1:
				c.Zero += blk.F64[0]
				c.noteWeight(blk.F64[0])
			case 0x28:
				c.Count += blk.F64[0]
				c.HasStats = true
			case 0x21:
				c.Sum += blk.F64[0]
			case 0x22:
				if blk.F64[0] < c.Min {
					c.Min = blk.F64[0]
				}
			case 0x23:
				if blk.F64[0] > c.Max {
					c.Max = blk.F64[0]
				}
			}
		case DocTypeMapping:
			c.HasMapping = true
			c.MapKind = DocMappingKind(blk.Sub)
			c.Gamma, c.Offset = blk.F64[0], blk.F64[1]
		case DocTypePositive, DocTypeNegative:
			m := c.Pos
			if blk.Type == DocTypeNegative {
				m = c.Neg
			}
			for i, idx := range blk.Indexes {
				if blk.Counts[i] != 0 {
					m[int(idx)] += blk.Counts[i]
					c.noteWeight(blk.Counts[i])
				}
			}
		}
	}
}

// Bins returns the content of one side as a RefStore of the given kind (so
// that a bounded target folds it).
func (c *DocContent) Store(neg bool, kind string, n int) *RefStore {
	s := NewRefStore(kind, n)
	m := c.Pos
	if neg {
		m = c.Neg
	}
	for idx, w := range m {
		s.Add(idx, w)
	}
	return s
}

// ---- encoder side (the foreign node) -----------------------------------------------------

func DocFlag(t, sub int) byte { return byte(sub<<2 | t) }

func DocEncodeMapping(kind string, gamma, offset float64) []byte {
	sub := map[string]int{"log": 0, "lin": 1, "cub": 3}[kind]
	out := []byte{DocFlag(DocTypeMapping, sub)}
	out = append(out, DocPutFloat64LE(gamma)...)
	return append(out, DocPutFloat64LE(offset)...)
}

func DocEncodeFeature(sub int, v float64) []byte {
	out := []byte{DocFlag(DocTypeFeature, sub)}
	if sub == 1 || sub == 0x28 {
		return append(out, DocPutVarfloat(v)...)
	}
	return append(out, DocPutFloat64LE(v)...)
}

// DocEncodeBins encodes bins in the given layout (1 deltas and counts, 2 deltas
// only - every count is 1 -, 3 contiguous with a stride).
func DocEncodeBins(t, layout int, indexes []int64, counts []float64, stride int64) []byte {
	out := []byte{DocFlag(t, layout)}
	out = append(out, DocPutUvarint(uint64(len(indexes)))...)
	switch layout {
	case 1, 2:
		prev := int64(0)
		for i, idx := range indexes {
			out = append(out, DocPutVarint(idx-prev)...)
			if layout == 1 {
				out = append(out, DocPutVarfloat(counts[i])...)
			}
			prev = idx
		}
	case 3:
		first := int64(0)
		if len(indexes) > 0 {
			first = indexes[0]
		}
		out = append(out, DocPutVarint(first)...)
		out = append(out, DocPutVarint(stride)...)
		for _, c := range counts {
			out = append(out, DocPutVarfloat(c)...)
		}
	}
	return out
}
