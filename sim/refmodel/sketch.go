package refmodel

import (
	"math"
	"math/big"
	"sort"
)

// Item is one absorbed (value, weight) pair.
type Item struct {
	V, W float64
	// Raw is the value as absorbed; Sorted sets V to 0 for sub-minimum magnitudes and keeps Raw.
	Raw float64
}

// RefSketch is the reference model of a sketch: zero weight, positive and
// negative RefStore (bin level; the routing of a value to (side, index) uses
// the sketch's own immutable mapping and is trusted for bin-level equalities
// only), and the absorbed multiset for the value-level oracles, which use only
// the configured accuracy and the absorbed values.
type RefSketch struct {
	Pos, Neg *RefStore
	Zero     float64
	// Vals is the absorbed multiset: value bits -> accumulated weight (merging a
	// sketch into itself's descendants repeatedly must not blow the model up).
	Vals map[uint64]float64
	// NonUnit: some weight other than 1 was absorbed, or the sketch was re-weighted.
	NonUnit bool
	// ValTotal and ValGran: total weight and granule of the absorbed multiset, maintained
	// incrementally; they stay meaningful when the bin model does not (after a mapping change).
	ValTotal float64
	ValGran  int
	// SumOverflow: at some point the exact sum (or one of its terms) left the float64 range;
	// the implementation's running sum is then infinite or NaN for good (sticky until Clear).
	SumOverflow bool
	// PosOver / NegOver (sticky until Clear): the positive (negative) contributions value*weight ever
	// added up to 1e300 or more, so a running sum may have reached +Inf (-Inf). Without both, an exact
	// sum can never be NaN; without one, it can never be that infinity.
	PosOver, NegOver bool
	// Scale history is folded into Items (weights are rescaled in place).
	Tainted bool
	// Lossy: some absorbed content came from a bounded store that had already
	// folded bins, so the absorbed values no longer describe the bins; only
	// bin-level oracles apply.
	Lossy bool
}

func NewRefSketch(kind string, n int) *RefSketch {
	return &RefSketch{Pos: NewRefStore(kind, n), Neg: NewRefStore(kind, n), Vals: map[uint64]float64{}}
}

func (s *RefSketch) Clone() *RefSketch {
	c := &RefSketch{Pos: s.Pos.Clone(), Neg: s.Neg.Clone(), Zero: s.Zero, Vals: make(map[uint64]float64, len(s.Vals)), Tainted: s.Tainted, Lossy: s.Lossy, NonUnit: s.NonUnit,
		ValTotal: s.ValTotal, ValGran: s.ValGran, SumOverflow: s.SumOverflow, PosOver: s.PosOver, NegOver: s.NegOver}
	for k, v := range s.Vals {
		c.Vals[k] = v
	}
	return c
}

// CloneAs clones the content into stores of another kind (decode / rebuild
// into a different store kind).
func (s *RefSketch) CloneAs(kind string, n int) *RefSketch {
	c := NewRefSketch(kind, n)
	c.MergeFrom(s)
	return c
}

func (s *RefSketch) Clear() {
	s.Pos.Clear()
	s.Neg.Clear()
	s.Zero = 0
	s.Vals = map[uint64]float64{}
	s.NonUnit = false
	s.ValTotal, s.ValGran, s.SumOverflow = 0, 0, false
	s.PosOver, s.NegOver = false, false
	s.Tainted = false
	s.Lossy = false
}

// Absorb records a value the real sketch accepted. side: +1 positive store,
// -1 negative store, 0 zero bucket.
func (s *RefSketch) Absorb(v, w float64, side, index int) {
	if w == 0 {
		return
	}
	switch side {
	case 1:
		s.Pos.Add(index, w)
	case -1:
		s.Neg.Add(index, w)
	default:
		s.Zero += w
	}
	s.Vals[math.Float64bits(v)] += w
	s.ValTotal += w
	if g, ok := GranOf(w); ok && g >= -45 && g < s.ValGran {
		s.ValGran = g
	}
	if w != 1 {
		s.NonUnit = true
	}
}

// MergeFrom adds the observable content of o (folded, if o is bounded).
func (s *RefSketch) MergeFrom(o *RefSketch) {
	s.Pos.MergeFrom(o.Pos)
	s.Neg.MergeFrom(o.Neg)
	s.Zero += o.Zero
	for k, w := range o.Vals {
		s.Vals[k] += w
	}
	if o.NonUnit {
		s.NonUnit = true
	}
	s.ValTotal += o.ValTotal
	if o.ValGran < s.ValGran {
		s.ValGran = o.ValGran
	}
	if o.SumOverflow {
		s.SumOverflow = true
	}
	s.PosOver = s.PosOver || o.PosOver
	s.NegOver = s.NegOver || o.NegOver
	if o.Tainted {
		s.Tainted = true
	}
	if o.Lossy || o.Folded() {
		s.Lossy = true
	}
}

func (s *RefSketch) Scale(w float64) {
	s.Pos.Scale(w)
	s.Neg.Scale(w)
	s.Zero *= w
	for k := range s.Vals {
		s.Vals[k] *= w
	}
	s.ValTotal *= w
	if _, e := math.Frexp(w); true {
		s.ValGran += e - 1
		if s.ValGran > 0 {
			s.ValGran = 0
		}
	}
	if w != 1 {
		s.NonUnit = true
	}
}

func (s *RefSketch) Gran() int {
	g := s.Pos.Gran
	if s.Neg.Gran < g {
		g = s.Neg.Gran
	}
	if zg, ok := GranOf(s.Zero); ok && zg < g && (zg >= -45 || !s.Tainted) {
		g = zg // (an arbitrary-weight model is compared with tolerances and has no granule)
	}
	return g
}

// Count is exact under the budget.
func (s *RefSketch) Count() float64 { return s.Zero + s.Pos.Total() + s.Neg.Total() }

func (s *RefSketch) IsEmpty() bool { return s.Zero == 0 && s.Pos.IsEmpty() && s.Neg.IsEmpty() }

// FitsAfter checks the exactness budget of the whole sketch (the count is a
// sum over both stores and the zero weight).
func (s *RefSketch) FitsAfter(extra float64, g int) bool {
	if sg := s.Gran(); sg < g {
		g = sg
	}
	if s.ValGran < g {
		g = s.ValGran
	}
	if g < -45 {
		return false
	}
	total := s.Count()
	if s.ValTotal > total {
		total = s.ValTotal // after a mapping change only the multiset knows the weight
	}
	return (total+extra+1)*math.Ldexp(1, -g) < math.Ldexp(1, BudgetBits)
}

// BudgetBits: every count of a run (and count+1, which the wire format stores)
// is an integer multiple of the run's granule below 2^BudgetBits, so sums of
// counts are exact in any order. 50 leaves three spare bits; runs that aim at
// full-length varfloat64 encodings (the lowest mantissa bits of count+1 set)
// raise it to 52, which still keeps every such sum below 2^53 granules.
var BudgetBits = 50

// ItemAt returns the item holding the order statistic of 0-based rank k in a
// sorted item list with integer multiplicities.
func ItemAt(items []Item, k int64) Item {
	cum := 0.0
	for _, it := range items {
		cum += it.W
		if float64(k) < cum {
			return it
		}
	}
	return items[len(items)-1]
}

// Sorted returns the absorbed items in ascending value order, with every
// magnitude below minIndexable replaced by 0 ("values closer to zero than the
// smallest indexable magnitude count as 0").
func (s *RefSketch) Sorted(minIndexable float64) []Item {
	out := make([]Item, 0, len(s.Vals))
	for bits, w := range s.Vals {
		it := Item{V: math.Float64frombits(bits), W: w}
		if it.W == 0 {
			continue
		}
		it.Raw = it.V
		if math.Abs(it.V) < minIndexable {
			it.V = 0
		}
		out = append(out, it)
	}
	sort.Slice(out, func(i, j int) bool {
		if out[i].Raw != out[j].Raw {
			return out[i].Raw < out[j].Raw
		}
		return math.Signbit(out[i].Raw) && !math.Signbit(out[j].Raw) // -0 before +0: a total order
	})
	return out
}

// ExactSum returns sum(v*w) and sum(|v*w|), computed exactly.
func (s *RefSketch) ExactSum() (sum, abs *big.Float) {
	sum = new(big.Float).SetPrec(2400)
	abs = new(big.Float).SetPrec(2400)
	for _, it := range s.Sorted(0) {
		t := new(big.Float).SetPrec(2400).SetFloat64(it.V)
		t.Mul(t, new(big.Float).SetPrec(2400).SetFloat64(it.W))
		sum.Add(sum, t)
		abs.Add(abs, t.Abs(t))
	}
	return
}

// TrueMinMax returns the extremes of the absorbed values with positive weight.
func (s *RefSketch) TrueMinMax() (lo, hi float64, ok bool) {
	for _, it := range s.Sorted(0) {
		if it.W <= 0 {
			continue
		}
		if !ok || it.V < lo {
			lo = it.V
		}
		if !ok || it.V > hi {
			hi = it.V
		}
		ok = true
	}
	return
}

// RankExact computes q*(W-1) exactly as a rational (q and W are floats, hence
// rationals).
func RankExact(q, w float64) *big.Rat {
	r := new(big.Rat).SetFloat64(w)
	r.Sub(r, big.NewRat(1, 1))
	return r.Mul(r, new(big.Rat).SetFloat64(q))
}

// FloorCeil returns floor and ceiling of a rational as int64 (the rational is
// small in every use).
func FloorCeil(r *big.Rat) (int64, int64) {
	num, den := new(big.Int).Set(r.Num()), r.Denom()
	fl := new(big.Int)
	m := new(big.Int)
	fl.DivMod(num, den, m) // Euclidean: m >= 0
	c := new(big.Int).Set(fl)
	if m.Sign() != 0 {
		c.Add(c, big.NewInt(1))
	}
	return fl.Int64(), c.Int64()
}

// Folded reports whether either side currently has content folded at its
// collapsing edge.
func (s *RefSketch) Folded() bool {
	_, a := s.Pos.Edge()
	_, b := s.Neg.Edge()
	return a || b
}

// TaintedAny reports whether any weight of the sketch is not exactly summable.
func (s *RefSketch) TaintedAny() bool {
	_, zok := GranOf(s.Zero)
	return s.Tainted || s.Pos.Tainted || s.Neg.Tainted || !zok
}

// ValsCount is the total absorbed weight computed from the value multiset (it
// stays meaningful when the bin model does not, e.g. after a mapping change).
func (s *RefSketch) ValsCount() float64 {
	t := 0.0
	for _, it := range s.Sorted(0) {
		t += it.W
	}
	return t
}
