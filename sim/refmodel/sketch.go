package refmodel

import (
	"math"
	"math/big"
	"sort"
)

// Item is one absorbed (value, weight) pair.
type Item struct {
	V, W float64
}

// RefSketch is the reference model of a sketch: zero weight, positive and
// negative RefStore (bin level; the routing of a value to (side, index) uses
// the sketch's own immutable mapping and is trusted for bin-level equalities
// only), and the absorbed multiset for the value-level oracles, which use only
// the configured accuracy and the absorbed values.
type RefSketch struct {
	Pos, Neg *RefStore
	Zero     float64
	Items    []Item
	// Scale history is folded into Items (weights are rescaled in place).
	Tainted bool
}

func NewRefSketch(kind string, n int) *RefSketch {
	return &RefSketch{Pos: NewRefStore(kind, n), Neg: NewRefStore(kind, n)}
}

func (s *RefSketch) Clone() *RefSketch {
	return &RefSketch{Pos: s.Pos.Clone(), Neg: s.Neg.Clone(), Zero: s.Zero, Items: append([]Item(nil), s.Items...), Tainted: s.Tainted}
}

// CloneAs clones the content into stores of another kind (decode / rebuild
// into a different store kind).
func (s *RefSketch) CloneAs(kind string, n int) *RefSketch {
	c := NewRefSketch(kind, n)
	c.MergeFrom(s)
	return c
}

func (s *RefSketch) Clear() {
	s.Pos.Clear()
	s.Neg.Clear()
	s.Zero = 0
	s.Items = nil
	s.Tainted = false
}

// Absorb records a value the real sketch accepted. side: +1 positive store,
// -1 negative store, 0 zero bucket.
func (s *RefSketch) Absorb(v, w float64, side, index int) {
	if w == 0 {
		return
	}
	switch side {
	case 1:
		s.Pos.Add(index, w)
	case -1:
		s.Neg.Add(index, w)
	default:
		s.Zero += w
	}
	s.Items = append(s.Items, Item{v, w})
}

// MergeFrom adds the observable content of o (folded, if o is bounded).
func (s *RefSketch) MergeFrom(o *RefSketch) {
	s.Pos.MergeFrom(o.Pos)
	s.Neg.MergeFrom(o.Neg)
	s.Zero += o.Zero
	s.Items = append(s.Items, o.Items...)
	if o.Tainted {
		s.Tainted = true
	}
}

func (s *RefSketch) Scale(w float64) {
	s.Pos.Scale(w)
	s.Neg.Scale(w)
	s.Zero *= w
	for i := range s.Items {
		s.Items[i].W *= w
	}
}

func (s *RefSketch) Gran() int {
	g := s.Pos.Gran
	if s.Neg.Gran < g {
		g = s.Neg.Gran
	}
	if zg, ok := GranOf(s.Zero); ok && zg < g {
		g = zg
	}
	return g
}

// Count is exact under the budget.
func (s *RefSketch) Count() float64 { return s.Zero + s.Pos.Total() + s.Neg.Total() }

func (s *RefSketch) IsEmpty() bool { return s.Zero == 0 && s.Pos.IsEmpty() && s.Neg.IsEmpty() }

// FitsAfter checks the exactness budget of the whole sketch (the count is a
// sum over both stores and the zero weight).
func (s *RefSketch) FitsAfter(extra float64, g int) bool {
	if sg := s.Gran(); sg < g {
		g = sg
	}
	if g < -45 {
		return false
	}
	return (s.Count()+extra+1)*math.Ldexp(1, -g) < (1 << 50)
}

// Sorted returns the absorbed items in ascending value order, with every
// magnitude below minIndexable replaced by 0 ("values closer to zero than the
// smallest indexable magnitude count as 0").
func (s *RefSketch) Sorted(minIndexable float64) []Item {
	out := make([]Item, 0, len(s.Items))
	for _, it := range s.Items {
		if it.W == 0 {
			continue
		}
		if math.Abs(it.V) < minIndexable {
			it.V = 0
		}
		out = append(out, it)
	}
	sort.SliceStable(out, func(i, j int) bool { return out[i].V < out[j].V })
	return out
}

// ExactSum returns sum(v*w) and sum(|v*w|), computed exactly.
func (s *RefSketch) ExactSum() (sum, abs *big.Float) {
	sum = new(big.Float).SetPrec(2400)
	abs = new(big.Float).SetPrec(2400)
	for _, it := range s.Items {
		t := new(big.Float).SetPrec(2400).SetFloat64(it.V)
		t.Mul(t, new(big.Float).SetPrec(2400).SetFloat64(it.W))
		sum.Add(sum, t)
		abs.Add(abs, t.Abs(t))
	}
	return
}

// TrueMinMax returns the extremes of the absorbed values with positive weight.
func (s *RefSketch) TrueMinMax() (lo, hi float64, ok bool) {
	for _, it := range s.Items {
		if it.W <= 0 {
			continue
		}
		if !ok || it.V < lo {
			lo = it.V
		}
		if !ok || it.V > hi {
			hi = it.V
		}
		ok = true
	}
	return
}

// RankExact computes q*(W-1) exactly as a rational (q and W are floats, hence
// rationals).
func RankExact(q, w float64) *big.Rat {
	r := new(big.Rat).SetFloat64(w)
	r.Sub(r, big.NewRat(1, 1))
	return r.Mul(r, new(big.Rat).SetFloat64(q))
}

// FloorCeil returns floor and ceiling of a rational as int64 (the rational is
// small in every use).
func FloorCeil(r *big.Rat) (int64, int64) {
	num, den := new(big.Int).Set(r.Num()), r.Denom()
	fl := new(big.Int)
	m := new(big.Int)
	fl.DivMod(num, den, m) // Euclidean: m >= 0
	c := new(big.Int).Set(fl)
	if m.Sign() != 0 {
		c.Add(c, big.NewInt(1))
	}
	return fl.Int64(), c.Int64()
}
