// Package refmodel holds the small executable reference models the oracles
// compare the real code against.
package refmodel

import (
	"fmt"
	"math"
	"sort"
	"strings"
)

// Store kinds.
const (
	Dense     = "dense"
	Sparse    = "sparse"
	Paginated = "paginated"
	CLow      = "clow"
	CHigh     = "chigh"
)

func IsCollapsing(kind string) bool { return kind == CLow || kind == CHigh }
func IsDenseFamily(kind string) bool {
	return kind == Dense || kind == CLow || kind == CHigh
}

// RefStore is "the mathematical map from index to accumulated weight".
//
// Exactness discipline: every weight that enters a RefStore is a multiple of
// 2^Gran and the total stays below 2^(Gran+50), so every partial sum that any
// implementation order could form is exactly representable in float64 and
// float64 addition is associative on everything the stores compute. The model
// therefore computes in float64 too, and asserts the budget (Fits) before an
// operation is generated or executed; an operation that would leave the budget
// is a deterministic no-op of the executor.
type RefStore struct {
	Kind  string
	N     int             // bin limit for collapsing kinds
	Exact map[int]float64 // unfolded content
	Gran  int             // all weights are multiples of 2^Gran; Gran <= 0
	// Tainted marks content whose weights are not exactly summable (result of a
	// mapping change); only tolerant oracles may look at it.
	Tainted bool
}

func NewRefStore(kind string, n int) *RefStore {
	return &RefStore{Kind: kind, N: n, Exact: map[int]float64{}}
}

func (s *RefStore) Clone() *RefStore {
	c := &RefStore{Kind: s.Kind, N: s.N, Exact: make(map[int]float64, len(s.Exact)), Gran: s.Gran, Tainted: s.Tainted}
	for k, v := range s.Exact {
		c.Exact[k] = v
	}
	return c
}

func (s *RefStore) Clear() {
	s.Exact = map[int]float64{}
	s.Gran = 0
	s.Tainted = false
}

// GranOf returns the largest g <= 0 such that w is a multiple of 2^g, or
// (0,false) if w is not a dyadic number within the supported range.
func GranOf(w float64) (int, bool) {
	if w == 0 {
		return 0, true
	}
	if math.IsNaN(w) || math.IsInf(w, 0) || w < 0 {
		return 0, false
	}
	fr, exp := math.Frexp(w) // w = fr * 2^exp, fr in [0.5,1)
	m := uint64(fr * (1 << 53))
	tz := 0
	for m&1 == 0 && tz < 53 {
		m >>= 1
		tz++
	}
	g := exp - 53 + tz
	if g > 0 {
		g = 0
	}
	if g < -60 {
		return 0, false
	}
	return g, true
}

// Total is exact under the budget.
func (s *RefStore) Total() float64 {
	t := 0.0
	for _, k := range s.keys() {
		t += s.Exact[k]
	}
	return t
}

// FitsAfter reports whether adding extra total weight with granule g keeps the
// store inside the exactness budget.
func (s *RefStore) FitsAfter(extra float64, g int) bool {
	if g > s.Gran {
		g = s.Gran
	}
	if g < -45 {
		return false
	}
	return (s.Total()+extra+1)*math.Ldexp(1, -g) < math.Ldexp(1, BudgetBits)
}

func (s *RefStore) Add(index int, w float64) {
	if w == 0 {
		return
	}
	if g, ok := GranOf(w); ok && g >= -45 {
		if g < s.Gran {
			s.Gran = g
		}
	} else {
		s.Tainted = true // not a weight of the exact regime (arbitrary, or finer than the finest granule)
	}
	s.Exact[index] += w
}

// MergeFrom adds the observable (folded) content of o.
func (s *RefStore) MergeFrom(o *RefStore) {
	for _, b := range o.Bins() {
		s.Exact[b.Index] += b.Count
	}
	if o.Gran < s.Gran {
		s.Gran = o.Gran
	}
	if o.Tainted {
		s.Tainted = true
	}
}

// Scale multiplies every weight by a power of two.
func (s *RefStore) Scale(w float64) {
	for k := range s.Exact {
		s.Exact[k] *= w
	}
	_, e := math.Frexp(w)
	s.Gran += e - 1
	if s.Gran > 0 {
		s.Gran = 0
	}
}

type RefBin struct {
	Index int
	Count float64
}

func (s *RefStore) keys() []int {
	keys := make([]int, 0, len(s.Exact))
	for k := range s.Exact {
		keys = append(keys, k)
	}
	sort.Ints(keys)
	return keys
}

// RawSpan returns min and max index of the unfolded content.
func (s *RefStore) RawSpan() (lo, hi int, ok bool) {
	first := true
	for k := range s.Exact {
		if first {
			lo, hi, first = k, k, false
		}
		if k < lo {
			lo = k
		}
		if k > hi {
			hi = k
		}
	}
	return lo, hi, !first
}

// Bins returns the observable content in ascending index order: the exact
// content, with every index beyond the collapsing edge (max-N+1 for
// lowest-collapsing, min+N-1 for highest-collapsing) folded into the edge bin.
func (s *RefStore) Bins() []RefBin {
	keys := s.keys()
	if len(keys) == 0 {
		return nil
	}
	out := make([]RefBin, 0, len(keys))
	switch s.Kind {
	case CLow:
		edge := keys[len(keys)-1] - s.N + 1
		acc := 0.0
		i := 0
		for ; i < len(keys) && keys[i] <= edge; i++ {
			acc += s.Exact[keys[i]]
		}
		if acc > 0 {
			out = append(out, RefBin{edge, acc})
		}
		for ; i < len(keys); i++ {
			out = append(out, RefBin{keys[i], s.Exact[keys[i]]})
		}
	case CHigh:
		edge := keys[0] + s.N - 1
		acc := 0.0
		i := 0
		for ; i < len(keys) && keys[i] < edge; i++ {
			out = append(out, RefBin{keys[i], s.Exact[keys[i]]})
		}
		for ; i < len(keys); i++ {
			acc += s.Exact[keys[i]]
		}
		if acc > 0 {
			out = append(out, RefBin{edge, acc})
		}
	default:
		for _, k := range keys {
			out = append(out, RefBin{k, s.Exact[k]})
		}
	}
	return out
}

// Edge returns the collapsing edge and whether anything is actually folded.
func (s *RefStore) Edge() (edge int, folded bool) {
	lo, hi, ok := s.RawSpan()
	if !ok {
		return 0, false
	}
	switch s.Kind {
	case CLow:
		edge = hi - s.N + 1
		return edge, lo < edge
	case CHigh:
		edge = lo + s.N - 1
		return edge, hi > edge
	}
	return 0, false
}

func (s *RefStore) IsEmpty() bool { return len(s.Exact) == 0 }

// KeyAtRank returns the first index whose cumulative weight exceeds max(r,0),
// else the maximum index. Undefined (ok=false) on an empty store.
func KeyAtRank(bins []RefBin, r float64) (int, bool) {
	if len(bins) == 0 {
		return 0, false
	}
	if r < 0 {
		r = 0
	}
	cum := 0.0
	for _, b := range bins {
		cum += b.Count
		if cum > r {
			return b.Index, true
		}
	}
	return bins[len(bins)-1].Index, true
}

func BinsString(bins []RefBin) string {
	var sb strings.Builder
	sb.WriteString("{")
	for i, b := range bins {
		if i > 0 {
			sb.WriteString(" ")
		}
		if i >= 40 {
			fmt.Fprintf(&sb, "... %d more", len(bins)-i)
			break
		}
		fmt.Fprintf(&sb, "%d:%v", b.Index, b.Count)
	}
	sb.WriteString("}")
	return sb.String()
}

// DiffBins returns a description of the first difference, or "".
func DiffBins(want, got []RefBin) string {
	for i := 0; i < len(want) || i < len(got); i++ {
		switch {
		case i >= len(want):
			return fmt.Sprintf("unexpected bin %d:%v", got[i].Index, got[i].Count)
		case i >= len(got):
			return fmt.Sprintf("missing bin %d:%v", want[i].Index, want[i].Count)
		case want[i] != got[i]:
			return fmt.Sprintf("bin #%d: want %d:%v got %d:%v", i, want[i].Index, want[i].Count, got[i].Index, got[i].Count)
		}
	}
	return ""
}
