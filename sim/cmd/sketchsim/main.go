// sketchsim is the deterministic simulator for DataDog/sketches-go.
//
//	sketchsim -check C04 -tier quick      driver: workers, triage, evidence
//	sketchsim -worker -prop C04 ...       one shard of a batch (internal)
//	sketchsim -replay file.json           re-execute a recorded plan
//	sketchsim -digest C04                 print the batch digest only (determinism self-test)
package main

import (
	"encoding/json"
	"flag"
	"fmt"
	"os"
	"runtime"
	"runtime/pprof"
	"strconv"
	"strings"

	"verif/sim/engine"
	_ "verif/sim/worlds"
)

func main() {
	check := flag.String("check", "", "property to check")
	worker := flag.Bool("worker", false, "run one shard and print its result as JSON")
	prop := flag.String("prop", "", "property (worker mode)")
	tier := flag.String("tier", "quick", "quick | thorough")
	seedFlag := flag.String("seed", "", "batch seed (default $VERIF_SEED or 1)")
	shard := flag.String("shard", "0/1", "i/n")
	replay := flag.String("replay", "", "replay file")
	quiet := flag.Bool("quiet", false, "do not print the event trace on replay")
	workers := flag.Int("workers", 0, "worker processes (default: all cores)")
	verifDir := flag.String("verif", "/verif", "verification directory")
	info := flag.String("info", "", "extra key=value pairs recorded in the evidence (comma separated)")
	replayInproc := flag.String("replay-inproc", "", "replay file, executed in this process (internal)")
	skipFlag := flag.String("skip", "", "runs to skip (worker mode, internal)")
	only := flag.Int("only", -1, "execute only this run (worker mode, internal)")
	minimise := flag.String("minimise", "", "plan file with a violation to minimise (internal)")
	minimiseOut := flag.String("minimise-out", "", "where to write the minimised plan (internal)")
	dump := flag.Int("dump", -1, "with -prop: print the plan of run N of the batch and exit")
	cpuprofile := flag.String("cpuprofile", "", "write a CPU profile (replay)")
	flag.Parse()
	if *cpuprofile != "" {
		f, err := os.Create(*cpuprofile)
		if err == nil {
			pprof.StartCPUProfile(f)
			defer pprof.StopCPUProfile()
		}
	}

	seed := uint64(1)
	s := *seedFlag
	if s == "" {
		s = os.Getenv("VERIF_SEED")
	}
	if s != "" {
		if v, err := strconv.ParseUint(s, 10, 64); err == nil {
			seed = v
		} else if v, err := strconv.ParseInt(s, 10, 64); err == nil {
			seed = uint64(v)
		}
	}
	if t := os.Getenv("VERIF_TIER"); t != "" && *check != "" && !flagSet("tier") {
		*tier = t
	}
	if *tier != "quick" && *tier != "thorough" {
		fmt.Fprintln(os.Stderr, "ERROR: tier must be quick or thorough")
		os.Exit(2)
	}

	switch {
	case *minimise != "":
		os.Exit(engine.MinimiseFile(*minimise, *minimiseOut))
	case *dump >= 0:
		p := engine.Registry[*prop]
		if p == nil {
			fmt.Fprintf(os.Stderr, "ERROR: unknown property %q\n", *prop)
			os.Exit(2)
		}
		plan := p.Generate(engine.NewPRNG(engine.Mix(seed, uint64(*dump))), *dump, *tier)
		plan.Format, plan.Property, plan.Seed, plan.Run, plan.Tier = 1, p.ID, seed, *dump, *tier
		if plan.World == "" {
			plan.World = p.World
		}
		b, _ := json.MarshalIndent(plan, "", " ")
		fmt.Println(string(b))
	case *replayInproc != "":
		code := engine.ReplayInProc(*replayInproc, *quiet)
		pprof.StopCPUProfile()
		os.Exit(code)
	case *replay != "":
		os.Exit(engine.Replay(*replay, *quiet))
	case *worker:
		p := engine.Registry[*prop]
		if p == nil {
			fmt.Fprintf(os.Stderr, "ERROR: unknown property %q\n", *prop)
			os.Exit(2)
		}
		var i, n int
		if _, err := fmt.Sscanf(*shard, "%d/%d", &i, &n); err != nil || n < 1 || i < 0 || i >= n {
			fmt.Fprintln(os.Stderr, "ERROR: bad -shard")
			os.Exit(2)
		}
		skip := map[int]bool{}
		for _, f := range strings.Split(*skipFlag, ",") {
			if k, err := strconv.Atoi(f); err == nil {
				skip[k] = true
			}
		}
		res := engine.RunShard(p, *tier, seed, i, n, skip, *only)
		enc := json.NewEncoder(os.Stdout)
		if err := enc.Encode(res); err != nil {
			fmt.Fprintln(os.Stderr, "ERROR:", err)
			os.Exit(2)
		}
	case *check != "":
		p := engine.Registry[*check]
		if p == nil {
			fmt.Fprintf(os.Stderr, "ERROR: unknown property %q\n", *check)
			os.Exit(2)
		}
		w := *workers
		if w <= 0 {
			w = runtime.NumCPU()
		}
		extra := map[string]interface{}{}
		if *info != "" {
			for _, kv := range strings.Split(*info, ",") {
				if i := strings.IndexByte(kv, '='); i > 0 {
					extra[kv[:i]] = kv[i+1:]
				}
			}
		}
		os.Exit(engine.RunCheck(p, *tier, seed, w, *verifDir, extra))
	default:
		flag.Usage()
		os.Exit(2)
	}
}

func flagSet(name string) bool {
	set := false
	flag.Visit(func(f *flag.Flag) {
		if f.Name == name {
			set = true
		}
	})
	return set
}
