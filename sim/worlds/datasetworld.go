package worlds

import (
	"fmt"
	"math"
	"math/big"
	"sort"

	"github.com/DataDog/sketches-go/dataset"

	"verif/sim/engine"
	"verif/sim/refmodel"
)

// W-dataset: dataset.Dataset objects with adder, reader and merger actors. The
// object has hidden state (a lazily maintained sort flag); the statement is
// about histories: answers are independent of insertion order and of
// interleaving queries with additions.
//
// Events:
//
//	add   N V
//	query N Q I    lower and upper quantiles for every q in Q; I selects extra reads (min, max, sum, count)
//	merge N M      N.Merge(M)
//
// At quiescence every dataset is rebuilt from a permutation of its multiset
// (order chosen by the run's salt) and must answer identically.

type dnode struct {
	real *dataset.Dataset
	vals []float64 // arrival order
}

type datasetExec struct {
	xctx
	nodes map[int]*dnode
	order []int
}

func ExecDatasetWorld(p *engine.Plan, st *engine.Stats) *engine.Violation {
	x := &datasetExec{xctx: xctx{prop: p.Property, plan: p, st: st}, nodes: map[int]*dnode{}}
	return x.run(func() {
		for _, n := range p.Nodes {
			if n.Role == "dataset" && n.ID > 0 && x.nodes[n.ID] == nil {
				var d *dataset.Dataset
				x.lib("NewDataset", "new", func() { d = dataset.NewDataset() })
				x.nodes[n.ID] = &dnode{real: d}
				x.order = append(x.order, n.ID)
			}
		}
		for i, e := range p.Events {
			x.at = i
			x.step(e)
			if e.T > st.SimTimeUs {
				st.SimTimeUs = e.T
			}
		}
		x.at = len(p.Events) - 1
		x.quiesce()
	})
}

func (x *datasetExec) step(e engine.Event) {
	nd := x.nodes[e.N]
	if nd == nil {
		return
	}
	switch e.Ev {
	case "add":
		v := float64(e.V)
		if math.IsNaN(v) || math.IsInf(v, 0) || len(nd.vals) >= 2000 {
			return
		}
		x.lib("Add", "add", func() { nd.real.Add(v) })
		nd.vals = append(nd.vals, v)
	case "merge":
		src := x.nodes[e.M]
		if src == nil || len(nd.vals)+len(src.vals) > 2000 {
			return
		}
		if src == nd {
			// merging a dataset into itself: every value twice
			x.lib("Merge(self)", "merge", func() { nd.real.Merge(nd.real) })
			nd.vals = append(nd.vals, nd.vals...)
			x.st.Oracle("merge")
			x.check(nd, nil, int(e.I)|1, "self-merge")
			x.st.Probe("self-merge")
			return
		}
		before := append([]float64(nil), src.vals...)
		x.lib("Merge", "merge", func() { nd.real.Merge(src.real) })
		nd.vals = append(nd.vals, src.vals...)
		x.st.Oracle("merge")
		x.check(nd, e.Q, int(e.I)|1, "merge") // the reads right after a merge vary: any of them may be the first query
		// the argument still holds its multiset
		src.vals = before
		x.check(src, nil, 0x1f, "merge-argument")
		x.st.ProbeIf(len(src.vals) == 0, "merge-of-empty-dataset")
	case "query":
		x.check(nd, e.Q, int(e.I), "query")
	}
	h := engine.Hash64(uint64(log2class(len(nd.vals))))
	x.st.State(h)
	x.st.StateOp(engine.HashStr(h, e.Ev))
}

// check compares every requested observer with the sorted-slice model.
func (x *datasetExec) check(nd *dnode, qs []engine.F64, reads int, sig string) {
	sorted := append([]float64(nil), nd.vals...)
	sort.Float64s(sorted)
	n := len(sorted)
	d := nd.real
	if reads&1 != 0 {
		x.st.Oracle("min-max-count")
		var c float64
		x.lib("Count", sig, func() { c = d.Count })
		if c != float64(n) {
			x.fail("min-max-count", sig, "Count differs from the number of added values", fmt.Sprint(n), fmt.Sprint(c))
		}
	}
	// Min and Max are asked separately and in either order: each may be the first
	// order-statistic query after an addition (the dataset sorts lazily)
	checkMin := func() {
		x.st.Oracle("min-max-count")
		var mn float64
		x.lib("Min", sig, func() { mn = d.Min() })
		if mn != sorted[0] {
			x.fail("min-max-count", sig, "Min differs from the exact minimum", fmt.Sprint(sorted[0]), fmt.Sprint(mn))
		}
	}
	checkMax := func() {
		x.st.Oracle("min-max-count")
		var mx float64
		x.lib("Max", sig, func() { mx = d.Max() })
		if mx != sorted[n-1] {
			x.fail("min-max-count", sig, "Max differs from the exact maximum", fmt.Sprint(sorted[n-1]), fmt.Sprint(mx))
		}
	}
	if n > 0 {
		if reads&16 != 0 {
			if reads&8 != 0 {
				checkMax()
				x.st.Probe("max-asked-first")
			}
			if reads&2 != 0 {
				checkMin()
			}
		} else {
			if reads&2 != 0 {
				checkMin()
			}
			if reads&8 != 0 {
				checkMax()
			}
		}
	}
	if reads&4 != 0 {
		x.st.Oracle("sum")
		var sum float64
		x.lib("Sum", sig, func() { sum = d.Sum() })
		exact := new(big.Float).SetPrec(2400)
		abs := new(big.Float).SetPrec(2400)
		for _, v := range sorted {
			t := new(big.Float).SetPrec(2400).SetFloat64(v)
			exact.Add(exact, t)
			abs.Add(abs, t.Abs(t))
		}
		want, _ := exact.Float64()
		tol, _ := new(big.Float).Mul(abs, big.NewFloat(32*0x1p-53)).Float64()
		absF, _ := abs.Float64()
		if absF < 1e300 && math.Abs(sum-want) > tol+1e-290 {
			x.fail("sum", sig, "Sum is not accurate to rounding", fmt.Sprintf("%v +- %v", want, tol), fmt.Sprint(sum))
		}
		// beyond that a partial sum may overflow; what stays certain: an infinity needs contributions of
		// that sign near the float64 range, NaN needs both (an overflowed sum reads as its infinity)
		posAbs, negAbs := 0.0, 0.0
		for _, v := range sorted {
			if v > 0 {
				posAbs += v
			} else {
				negAbs -= v
			}
		}
		switch {
		case math.IsNaN(sum) && !(posAbs >= 1e300 && negAbs >= 1e300):
			x.fail("sum", sig, "Sum is NaN although the values of one sign never come near the float64 range", "a number or one infinity", "NaN")
		case math.IsInf(sum, 1) && posAbs < 1e300, math.IsInf(sum, -1) && negAbs < 1e300:
			x.fail("sum", sig, "Sum is an infinity that the values of that sign never come near", fmt.Sprint(want), fmt.Sprint(sum))
		}
	}
	for _, qf := range qs {
		q := float64(qf)
		var lo, hi, qq float64
		x.lib("LowerQuantile", sig, func() { lo = d.LowerQuantile(q) })
		x.lib("UpperQuantile", sig, func() { hi = d.UpperQuantile(q) })
		x.lib("Quantile", sig, func() { qq = d.Quantile(q) })
		x.st.Note(fbits(lo) ^ engine.Hash64(fbits(hi)))
		if n == 0 || !(q >= 0 && q <= 1) {
			x.st.Oracle("nan-cases")
			if !math.IsNaN(lo) || !math.IsNaN(hi) || !math.IsNaN(qq) {
				x.fail("nan-cases", sig, fmt.Sprintf("quantile %v of %d values must be NaN (empty dataset or q outside [0,1])", q, n), "NaN", fmt.Sprint(lo, hi, qq))
			}
			x.st.ProbeIf(n == 0, "query-on-empty-dataset")
			x.st.ProbeIf(n > 0, "query-out-of-range")
			continue
		}
		x.st.Oracle("lower-upper")
		r := refmodel.RankExact(q, float64(n))
		fl, ce := refmodel.FloorCeil(r)
		// the rank is computed in floating point: when fl(q*(n-1)) lands on the other side of an
		// integer than the exact product, the neighbouring order statistic is the correctly rounded answer
		fr := q * (float64(n) - 1)
		flF, ceF := int64(math.Floor(fr)), int64(math.Ceil(fr))
		// numeric equality: -0 and +0 are the same order statistic
		okLo := lo == sorted[fl] || (flF >= 0 && flF < int64(n) && lo == sorted[flF])
		okHi := hi == sorted[ce] || (ceF >= 0 && ceF < int64(n) && hi == sorted[ceF])
		if !okLo || !okHi {
			x.fail("lower-upper", sig, fmt.Sprintf("quantile %v of %d values: lower/upper quantile are not the order statistics at floor/ceil of q*(n-1)=%s", q, n, r.FloatString(6)),
				fmt.Sprintf("lower=%v (rank %d) upper=%v (rank %d)", sorted[fl], fl, sorted[ce], ce), fmt.Sprintf("lower=%v upper=%v", lo, hi))
		}
		if fbits(qq) != fbits(lo) {
			x.fail("lower-upper", sig, "Quantile is documented as the lower quantile", fmt.Sprint(lo), fmt.Sprint(qq))
		}
		x.st.ProbeIf(fl != ce, "rank-between-two-order-statistics")
		x.st.ProbeIf(fl == ce, "rank-exactly-on-an-order-statistic")
	}
}

func (x *datasetExec) quiesce() {
	ids := append([]int(nil), x.order...)
	sort.Ints(ids)
	salt := x.plan.Seed ^ uint64(x.plan.Run)*0x9E3779B97F4A7C15
	grid := []engine.F64{0, 0.1, 0.25, 0.5, 0.75, 0.9, 1}
	for _, id := range ids {
		nd := x.nodes[id]
		x.check(nd, grid, 15, "quiesce")
		if len(nd.vals) < 2 {
			continue
		}
		// same multiset, another arrival order, no interleaved queries
		x.st.Oracle("order-independent")
		perm := append([]float64(nil), nd.vals...)
		sort.SliceStable(perm, func(i, j int) bool {
			return engine.Hash64(uint64(i)^salt)&0xffff < engine.Hash64(uint64(j)^salt)&0xffff
		})
		var d2 *dataset.Dataset
		x.lib("NewDataset", "permuted", func() { d2 = dataset.NewDataset() })
		for _, v := range perm {
			v := v
			x.lib("Add", "permuted", func() { d2.Add(v) })
		}
		for _, qf := range grid {
			q := float64(qf)
			var a1, a2, b1, b2 float64
			x.lib("LowerQuantile", "permuted", func() { a1, a2 = nd.real.LowerQuantile(q), d2.LowerQuantile(q) })
			x.lib("UpperQuantile", "permuted", func() { b1, b2 = nd.real.UpperQuantile(q), d2.UpperQuantile(q) })
			if (fbits(a1) != fbits(a2) && a1 != a2) || (fbits(b1) != fbits(b2) && b1 != b2) {
				x.fail("order-independent", "permuted", fmt.Sprintf("quantile %v depends on the arrival order or on interleaved queries", q), fmt.Sprint(a2, b2), fmt.Sprint(a1, b1))
			}
		}
	}
}

func GenDatasetWorld(r *engine.PRNG, run int, tier string) *engine.Plan {
	p := &engine.Plan{Config: map[string]string{}}
	q := &engine.SimQ{}
	nNodes := 1 + r.Pick(5, 3, 2)
	for i := 1; i <= nNodes; i++ {
		p.Nodes = append(p.Nodes, engine.Node{ID: i, Role: "dataset"})
	}
	counts := make([]int, nNodes+1)
	opsLeft := r.Range(3, 12)
	if r.Pct(40) {
		opsLeft = r.Range(12, 80)
	}
	regime := r.Intn(4)
	if r.Pct(2) {
		// one or two values of 2^54 or more among hundreds that are smaller than their rounding unit:
		// the sum is right only if what each small addend contributes is carried along
		regime = 4
		opsLeft = r.Range(300, 900)
		p.Config["values"] = "drizzle"
	}
	value := func() float64 {
		switch regime {
		case 4:
			if r.Pct(1) || counts[1]+counts[nNodes] == 0 {
				return []float64{0x1p55, -0x1p54, 0x1p60, 3e16}[r.Intn(4)]
			}
			return []float64{1, 1, 0.5, 2, 3, 0.25}[r.Intn(6)]
		case 0:
			return float64(r.Range(-20, 20))
		case 1:
			return r.Float64()*2000 - 1000
		case 2:
			return math.Float64frombits(r.Uint64()&0x7fefffffffffffff) * []float64{1, -1}[r.Intn(2)]
		default:
			return []float64{0, math.Copysign(0, -1), 1, -1, 1e300, -1e300, 5e-324, 2.5, 2.5, 7, -math.MaxFloat64, math.MaxFloat64, -math.MaxFloat64 / 2, 0x1p55, -0x1p54, 1}[r.Intn(16)]
		}
	}
	emit := func(e engine.Event) {
		e.T = q.Now
		p.Events = append(p.Events, e)
	}
	query := func(id int) {
		n := counts[id]
		var qs []engine.F64
		for k := r.Range(1, 5); k > 0; k-- {
			var v float64
			switch r.Pick(10, 10, 40, 25, 10, 5) {
			case 0:
				v = 0
			case 1:
				v = 1
			case 2:
				if n > 1 {
					v = nudge(float64(r.Intn(n))/float64(n-1), r.Range(-1, 1))
				} else {
					v = r.Float64()
				}
			case 3:
				v = r.Float64()
			case 4:
				v = []float64{-0.1, 1.1, math.Nextafter(0, -1), nudge(1, 1), -1, 2, math.Inf(1), math.Inf(-1)}[r.Intn(8)]
			default:
				v = math.NaN()
			}
			qs = append(qs, engine.F64(v))
		}
		if r.Pct(25) {
			qs = nil // only summaries: Min / Max / Sum / Count may be the first query after an addition
		}
		emit(engine.Event{Ev: "query", N: id, Q: qs, I: int64(r.Intn(32))})
	}
	var actor func(id int)
	actor = func(id int) {
		if opsLeft <= 0 {
			return
		}
		opsLeft--
		switch r.Pick(55, 30, 10, 5) {
		case 0:
			emit(engine.Event{Ev: "add", N: id, V: engine.F64(value())})
			counts[id]++
		case 1:
			query(id)
		case 2:
			{
				src := 1 + r.Intn(nNodes)
				if src != id || r.Pct(30) {
					var qs []engine.F64
					for k := r.Intn(3); k > 0; k-- {
						qs = append(qs, engine.F64([]float64{0, 0.5, 1, r.Float64()}[r.Intn(4)]))
					}
					emit(engine.Event{Ev: "merge", N: id, M: src, Q: qs, I: int64(r.Intn(32))})
					counts[id] += counts[src]
				}
			}
		default:
			for k := r.Range(3, 30); k > 0; k-- {
				emit(engine.Event{Ev: "add", N: id, V: engine.F64(value())})
				counts[id]++
			}
		}
		q.After(int64(r.Range(1, 1000)), func() { actor(id) })
	}
	for i := 1; i <= nNodes; i++ {
		i := i
		q.After(int64(r.Range(0, 100)), func() { actor(i) })
	}
	for steps := 0; q.Step() && steps < 2000; steps++ {
	}
	return p
}
