// Package worlds contains the simulated worlds (scenario families), their
// workload generators and their executors with the per-property oracles.
package worlds

import (
	"fmt"
	"math"
	"sort"
	"strings"

	"github.com/DataDog/sketches-go/ddsketch/store"

	"verif/sim/engine"
	"verif/sim/refmodel"
)

// violationSignal is how an executor aborts a run with a verdict.
type violationSignal struct{ v *engine.Violation }

// abandonSignal ends a run without a verdict: a partner object that the active
// property does not observe failed, so the run cannot continue, but the
// failure belongs to another property's check.
type abandonSignal struct{}

// xctx is the state shared by all executors.
type xctx struct {
	prop string
	plan *engine.Plan
	st   *engine.Stats
	at   int // index of the event being executed
	// partner is set while the executor operates on an object the active
	// property does not observe; a library panic then abandons the run.
	partner bool
}

func (x *xctx) fail(oracle, sig, msg, expected, observed string) {
	panic(&violationSignal{&engine.Violation{Property: x.prop, Oracle: x.prop + "." + oracle, AtEvent: x.at,
		Message: msg, Expected: expected, Observed: observed, Sig: x.prop + "/" + oracle + "/" + sig}})
}

// lib wraps exactly one call into the library. A panic raised inside it is a
// violation of the active property (its post-condition cannot hold); a panic
// anywhere else in the executor is a harness bug and ends in exit 2.
func (x *xctx) lib(op, sig string, f func()) {
	x.st.LibCalls++
	defer func() {
		if r := recover(); r != nil {
			if vs, ok := r.(*violationSignal); ok {
				panic(vs)
			}
			if _, ok := r.(*abandonSignal); ok {
				panic(r)
			}
			if x.partner {
				x.st.Probe("run-abandoned-partner-panic")
				panic(&abandonSignal{})
			}
			x.fail("panic", op+"/"+sig, fmt.Sprintf("panic in %s: %v", op, r), "no panic", "panic")
		}
	}()
	f()
}

// run executes body and converts a violation signal into a verdict.
func (x *xctx) run(body func()) (v *engine.Violation) {
	defer func() {
		if r := recover(); r != nil {
			if vs, ok := r.(*violationSignal); ok {
				v = vs.v
				return
			}
			if _, ok := r.(*abandonSignal); ok {
				v = nil
				return
			}
			panic(r)
		}
	}()
	body()
	return nil
}

func newRealStore(kind string, n int) store.Store {
	switch kind {
	case refmodel.Dense:
		return store.NewDenseStore()
	case refmodel.Sparse:
		return store.NewSparseStore()
	case refmodel.Paginated:
		return store.NewBufferedPaginatedStore()
	case refmodel.CLow:
		return store.NewCollapsingLowestDenseStore(n)
	case refmodel.CHigh:
		return store.NewCollapsingHighestDenseStore(n)
	}
	panic("unknown store kind " + kind)
}

func providerFor(kind string, n int) store.Provider {
	return func() store.Store { return newRealStore(kind, n) }
}

// Span budgets (DESIGN §8.5): dense-family stores allocate an array over the
// whole index span and the paginated store a page table over the paged span.
// The budgets are per run (plan config "dense_span" / "paged_span"); worlds whose
// oracles run after every event use smaller ones, because every rank lookup
// walks the whole array or page table.
var (
	denseSpanBudget = 1 << 16
	pagedSpanBudget = 1 << 22
)

func setSpanBudgets(p *engine.Plan, dense, paged int) {
	denseSpanBudget = p.CfgInt("dense_span", dense)
	pagedSpanBudget = p.CfgInt("paged_span", paged)
	if denseSpanBudget > 1<<16 {
		denseSpanBudget = 1 << 16
	}
	if pagedSpanBudget > 1<<22 {
		pagedSpanBudget = 1 << 22
	}
}

func spanBudget(kind string) int {
	switch kind {
	case refmodel.Dense:
		return denseSpanBudget
	case refmodel.Paginated:
		return pagedSpanBudget
	}
	return math.MaxInt64 // sparse: none; collapsing: arrays are bounded by N
}

// spanFitsAfter reports whether the store would stay within its span budget
// after also holding indexes lo..hi.
func spanFitsAfter(m *refmodel.RefStore, lo, hi int) bool {
	b := spanBudget(m.Kind)
	if b == math.MaxInt64 {
		return true
	}
	l, h, ok := m.RawSpan()
	if !ok {
		l, h = lo, hi
	}
	if lo < l {
		l = lo
	}
	if hi > h {
		h = hi
	}
	return h-l < b
}

func inInt32(i int64) bool { return i >= math.MinInt32 && i <= math.MaxInt32 }

// storeSnap is the full observable state of a store, taken through the public
// interface only.
type storeSnap struct {
	Total    float64
	Empty    bool
	Min, Max int
	MinErr   bool
	MaxErr   bool
	Bins     []refmodel.RefBin // via ForEach, sorted by index
	Dup      string            // non-empty if ForEach visited an index twice or with weight <= 0
}

func (x *xctx) snapStore(s store.Store, op string) *storeSnap {
	sn := &storeSnap{}
	x.lib(op+"/TotalCount", "", func() { sn.Total = s.TotalCount() })
	x.lib(op+"/IsEmpty", "", func() { sn.Empty = s.IsEmpty() })
	x.lib(op+"/MinIndex", "", func() {
		v, err := s.MinIndex()
		sn.Min, sn.MinErr = v, err != nil
	})
	x.lib(op+"/MaxIndex", "", func() {
		v, err := s.MaxIndex()
		sn.Max, sn.MaxErr = v, err != nil
	})
	x.lib(op+"/ForEach", "", func() {
		seen := map[int]bool{}
		s.ForEach(func(index int, count float64) bool {
			if seen[index] && sn.Dup == "" {
				sn.Dup = fmt.Sprintf("index %d visited twice", index)
			}
			if !(count > 0) && sn.Dup == "" {
				sn.Dup = fmt.Sprintf("index %d visited with weight %v", index, count)
			}
			seen[index] = true
			sn.Bins = append(sn.Bins, refmodel.RefBin{Index: index, Count: count})
			return false
		})
	})
	sort.SliceStable(sn.Bins, func(i, j int) bool { return sn.Bins[i].Index < sn.Bins[j].Index })
	return sn
}

func (a *storeSnap) diff(b *storeSnap) string {
	switch {
	case math.Float64bits(a.Total) != math.Float64bits(b.Total):
		return fmt.Sprintf("TotalCount %v vs %v", a.Total, b.Total)
	case a.Empty != b.Empty:
		return fmt.Sprintf("IsEmpty %v vs %v", a.Empty, b.Empty)
	case a.MinErr != b.MinErr || (!a.MinErr && a.Min != b.Min):
		return fmt.Sprintf("MinIndex %d(err=%v) vs %d(err=%v)", a.Min, a.MinErr, b.Min, b.MinErr)
	case a.MaxErr != b.MaxErr || (!a.MaxErr && a.Max != b.Max):
		return fmt.Sprintf("MaxIndex %d(err=%v) vs %d(err=%v)", a.Max, a.MaxErr, b.Max, b.MaxErr)
	case a.Dup != b.Dup:
		return fmt.Sprintf("iteration anomaly %q vs %q", a.Dup, b.Dup)
	}
	if d := refmodel.DiffBins(a.Bins, b.Bins); d != "" {
		return "bins: " + d
	}
	return ""
}

func (a *storeSnap) String() string {
	return fmt.Sprintf("total=%v empty=%v min=%d(err=%v) max=%d(err=%v) bins=%s", a.Total, a.Empty, a.Min, a.MinErr, a.Max, a.MaxErr, refmodel.BinsString(a.Bins))
}

func (a *storeSnap) hash() uint64 {
	h := math.Float64bits(a.Total)
	for _, b := range a.Bins {
		h = engine.Hash64(h ^ uint64(int64(b.Index))*0x9E3779B97F4A7C15 ^ math.Float64bits(b.Count))
	}
	return h
}

// log2class buckets a non-negative size for abstract-state hashing.
func log2class(n int) int {
	c := 0
	for n > 0 {
		n >>= 1
		c++
	}
	return c
}

func kindsKey(parts ...string) string { return strings.Join(parts, "/") }

// dyadicWeight draws a weight of the run's weight regime.
//
//	unit:  1
//	int:   small integers, sometimes large
//	frac:  k * 2^-g, g in 1..10
func dyadicWeight(r *engine.PRNG, regime string) float64 {
	switch regime {
	case "unit":
		return 1
	case "int":
		switch r.Pick(6, 3, 1) {
		case 0:
			return float64(r.Range(1, 5))
		case 1:
			return float64(r.Range(1, 1000))
		default:
			return math.Ldexp(1, r.Range(10, 30))
		}
	default:
		switch r.Pick(3, 5, 2) {
		case 0:
			return 1
		case 1:
			return float64(r.Range(1, 64)) * math.Ldexp(1, -r.Range(1, 10))
		default:
			return float64(r.Range(1, 5))
		}
	}
}
