package worlds

import (
	"bytes"
	"fmt"
	"math"

	"github.com/DataDog/sketches-go/ddsketch"
	"github.com/DataDog/sketches-go/ddsketch/mapping"
	"github.com/DataDog/sketches-go/ddsketch/pb/sketchpb"
	"github.com/DataDog/sketches-go/ddsketch/store"
	"google.golang.org/protobuf/proto"

	"verif/sim/engine"
	"verif/sim/refmodel"
)

// ---- C09: protobuf forms ---------------------------------------------------------------------

type hookC09 struct{ noHook }

func (hookC09) sent(x *fleetExec, e engine.Event, nd *knode, m *kmsg) {
	if m.form != "pb" && m.form != "pbstream" {
		return
	}
	sig := x.sigFor(e)
	x.st.Oracle("stream-equals-message")
	var built *sketchpb.DDSketch
	x.lib("ToProto", sig, func() { built = plainOf(nd.real).ToProto() })
	w := &simWriter{x: x, sig: sig}
	x.lib("EncodeProto", sig, func() { plainOf(nd.real).EncodeProto(w) })
	streamed := &sketchpb.DDSketch{}
	if err := proto.Unmarshal(w.buf.Bytes(), streamed); err != nil {
		x.fail("stream-equals-message", sig, "the bytes written by the streaming protobuf writer do not unmarshal: "+err.Error(), "a valid message", fmt.Sprintf("%x", w.buf.Bytes()))
	}
	if !protoSketchEqual(streamed, built) || !proto.Equal(streamed, built) {
		x.fail("stream-equals-message", sig, "the streamed bytes unmarshal to a message that differs from ToProto()", fmt.Sprint(built), fmt.Sprint(streamed))
	}
	// the same through a builder that is re-used (Reset) across sketches, as an allocation-free caller does
	var rbuf bytes.Buffer
	if x.reusedBuilder == nil {
		x.reusedBuilder = sketchpb.NewDDSketchBuilder(&rbuf)
	} else {
		x.reusedBuilder.Reset(&rbuf)
		x.st.Probe("streaming-builder-reused")
	}
	x.lib("EncodeProto(reused builder)", sig, func() {
		p := plainOf(nd.real)
		b := x.reusedBuilder
		b.SetMapping(func(mb *sketchpb.IndexMappingBuilder) { p.IndexMapping.EncodeProto(mb) })
		b.SetZeroCount(p.GetZeroCount())
		b.SetNegativeValues(func(sb *sketchpb.StoreBuilder) { p.GetNegativeValueStore().EncodeProto(sb) })
		b.SetPositiveValues(func(sb *sketchpb.StoreBuilder) { p.GetPositiveValueStore().EncodeProto(sb) })
	})
	reused := &sketchpb.DDSketch{}
	if err := proto.Unmarshal(rbuf.Bytes(), reused); err != nil || !protoSketchEqual(reused, built) || !proto.Equal(reused, built) {
		x.fail("stream-equals-message", sig, fmt.Sprintf("the bytes written through a re-used streaming builder do not unmarshal to ToProto() (err=%v)", err), fmt.Sprint(built), fmt.Sprint(reused))
	}
	// marshalling the in-memory message and unmarshalling it again is the identity as well
	b, err := proto.MarshalOptions{Deterministic: true}.Marshal(built)
	if err != nil {
		panic(err)
	}
	back := &sketchpb.DDSketch{}
	if err := proto.Unmarshal(b, back); err != nil || !protoSketchEqual(back, built) {
		x.fail("stream-equals-message", sig, "marshal/unmarshal of the in-memory message is not the identity", fmt.Sprint(built), fmt.Sprint(back))
	}
	x.st.ProbeIf(len(built.GetPositiveValues().GetBinCounts()) > 0 || len(built.GetNegativeValues().GetBinCounts()) > 0, "message-with-sparse-bins")
	x.st.ProbeIf(len(built.GetPositiveValues().GetContiguousBinCounts()) > 0 || len(built.GetNegativeValues().GetContiguousBinCounts()) > 0, "message-with-contiguous-bins")
	x.st.ProbeIf(w.writes > 6, "stream-many-writes")
}

// protoSketchEqual compares two messages field by field, bit for bit (a nil
// store and an empty store are the same content; zero-weight entries are kept
// as they are: both forms must agree on them too).
func protoSketchEqual(a, b *sketchpb.DDSketch) bool {
	if fbits(a.GetZeroCount()) != fbits(b.GetZeroCount()) {
		return false
	}
	am, bm := a.GetMapping(), b.GetMapping()
	if fbits(am.GetGamma()) != fbits(bm.GetGamma()) || fbits(am.GetIndexOffset()) != fbits(bm.GetIndexOffset()) || am.GetInterpolation() != bm.GetInterpolation() {
		return false
	}
	return protoStoreEqual(a.GetPositiveValues(), b.GetPositiveValues()) && protoStoreEqual(a.GetNegativeValues(), b.GetNegativeValues())
}

func protoStoreEqual(a, b *sketchpb.Store) bool {
	if len(a.GetBinCounts()) != len(b.GetBinCounts()) || len(a.GetContiguousBinCounts()) != len(b.GetContiguousBinCounts()) {
		return false
	}
	for k, v := range a.GetBinCounts() {
		w, ok := b.GetBinCounts()[k]
		if !ok || fbits(v) != fbits(w) {
			return false
		}
	}
	for i, v := range a.GetContiguousBinCounts() {
		if fbits(v) != fbits(b.GetContiguousBinCounts()[i]) {
			return false
		}
	}
	if a.GetContiguousBinIndexOffset() != b.GetContiguousBinIndexOffset() {
		return false // also without contiguous counts: the messages must be equal
	}
	return true
}

func (hookC09) decoded(x *fleetExec, e engine.Event, nd *knode, m *kmsg, d sk, dm *refmodel.RefSketch) {
	if m.form != "pb" && m.form != "pbstream" {
		return
	}
	sig := x.sigFor(e) + "/from-" + m.spec.Store
	x.st.Oracle("pb-roundtrip-mapping")
	dmap := mappingOf(d)
	var eq1, eq2 bool
	x.lib("Equals", sig, func() {
		eq1 = dmap != nil && dmap.Equals(nd.mapping)
		eq2 = dmap != nil && nd.mapping.Equals(dmap)
	})
	if !eq1 || !eq2 {
		x.fail("pb-roundtrip-mapping", sig, "the rebuilt sketch does not carry the source's mapping", mapKey(&m.spec), fmt.Sprintf("%v", dmap))
	}
	if dm.Folded() {
		// a bounded target that has to fold is C05's business, not a protobuf question
		x.st.Probe("rebuilt-into-bounded-target-with-folding(skipped)")
		return
	}
	oracle := "pb-roundtrip-content"
	if m.parts == 0 {
		oracle = "mixed-encodings-add"
	}
	if !dm.TaintedAny() {
		x.compareContent(d, dm, oracle, sig, "rebuilding from the protobuf message with a "+nd.spec.Store+" store")
	}
	if m.snap != nil && !m.exact {
		// bit for bit: every bin weight and the zero weight travel as fixed64
		x.st.Oracle("pb-roundtrip-content")
		ds := x.snapSketch(d, "rebuilt")
		if diff := m.snap.diff(ds, dm.TaintedAny()); diff != "" {
			x.fail("pb-roundtrip-content", sig, "the rebuilt sketch differs from the one that was converted: "+diff, m.snap.String(), ds.String())
		}
		x.st.ProbeIf(dm.TaintedAny(), "arbitrary-float-weights-compared-bit-for-bit")
		if dm.TaintedAny() && m.parts == 1 && m.spec.Store != refmodel.Paginated {
			// every index arrives exactly once (a paginated source may list an index as page weight and as
			// unit entries, which the target adds up in its own order): the weights are the sender's, bit for bit
			if d := refmodel.DiffBins(m.snap.Pos.Bins, ds.Pos.Bins); d != "" {
				x.fail("pb-roundtrip-content", sig, "positive bins of the rebuilt sketch differ from the converted one's: "+d, m.snap.String(), ds.String())
			}
			if d := refmodel.DiffBins(m.snap.Neg.Bins, ds.Neg.Bins); d != "" {
				x.fail("pb-roundtrip-content", sig, "negative bins of the rebuilt sketch differ from the converted one's: "+d, m.snap.String(), ds.String())
			}
		}
	}
}

// pbmix J N L Q : message J := hand-built protobuf message (mapping of node spec
// N) whose positive and negative stores give bins both sparsely and contiguously:
// L = [contiguous offset, number of contiguous counts, sparse indexes...],
// Q = [zero count, contiguous counts..., sparse counts...].
func (hookC09) event(x *fleetExec, e engine.Event) bool {
	if e.Ev != "pbmix" {
		return false
	}
	id := int(e.J)
	spec := x.plan.NodeByID(e.N)
	if id <= 0 || x.msgs[id] != nil || spec == nil || len(e.L) < 2 || len(e.Q) < 1 {
		return true
	}
	nc := int(e.L[1])
	ns := len(e.L) - 2
	if nc < 0 || nc > 200 || len(e.Q) != 1+nc+ns || !inInt32(e.L[0]) || !inInt32(e.L[0]+int64(nc)) {
		return true
	}
	m, err := buildMapping(spec)
	if err != nil {
		return true
	}
	// hand-built indexes must be indexes the mapping can produce
	loI, hiI := int64(m.Index(m.MinIndexableValue())), int64(m.Index(m.MaxIndexableValue()))
	for i, idx := range e.L {
		if i == 1 {
			continue
		}
		if idx <= loI || idx >= hiI-1 || (i == 0 && idx+int64(nc) >= hiI-1) {
			return true
		}
	}
	st := &sketchpb.Store{BinCounts: map[int32]float64{}, ContiguousBinIndexOffset: int32(e.L[0])}
	model := refmodel.NewRefSketch(refmodel.Sparse, 0)
	model.Lossy, model.NonUnit = true, true
	side := model.Pos
	if e.S == "neg" {
		side = model.Neg
	}
	for i := 0; i < nc; i++ {
		w := float64(e.Q[1+i])
		if _, ok := refmodel.GranOf(w); !ok {
			return true
		}
		st.ContiguousBinCounts = append(st.ContiguousBinCounts, w)
		side.Add(int(e.L[0])+i, w)
	}
	for i := 0; i < ns; i++ {
		w := float64(e.Q[1+nc+i])
		idx := e.L[2+i]
		if _, ok := refmodel.GranOf(w); !ok || !inInt32(idx) {
			return true
		}
		if _, dup := st.BinCounts[int32(idx)]; dup {
			continue
		}
		st.BinCounts[int32(idx)] = w
		side.Add(int(idx), w)
	}
	zero := float64(e.Q[0])
	if _, ok := refmodel.GranOf(zero); !ok {
		return true
	}
	model.Zero = zero
	msg := &sketchpb.DDSketch{Mapping: m.ToProto(), ZeroCount: zero}
	if e.S == "neg" {
		msg.NegativeValues = st
	} else {
		msg.PositiveValues = st
	}
	b, err := proto.MarshalOptions{Deterministic: true}.Marshal(msg)
	if err != nil {
		panic(err)
	}
	x.msgs[id] = &kmsg{form: "pb", data: b, model: model, spec: *spec, mkey: mapKey(spec), sentAt: x.at, parts: 0, hasMapping: true}
	x.st.Probe("hand-built-mixed-message")
	return true
}

// ---- C19: mapping identity through serialized forms ----------------------------------------------

type hookC19 struct{ noHook }

func probeValues(m mapping.IndexMapping) []float64 {
	lo, hi := m.MinIndexableValue(), m.MaxIndexableValue()
	vs := []float64{lo, nudge(lo, 1), lo * 1.5, hi, nudge(hi, -1), hi / 1.5, 1, 1.5, 2, 3, 10, 0.1, 1e-3, 1e6, 1e-100, 1e100, math.Pi, 123456.789}
	out := vs[:0]
	for _, v := range vs {
		if v >= lo && v <= hi {
			out = append(out, v)
		}
	}
	return out
}

// sameFunction: two mappings send every probe value to the same index and
// every probe index to the same value and bound, bit for bit.
func (x *fleetExec) sameFunction(a, b mapping.IndexMapping, oracle, sig, what string) {
	x.st.Oracle(oracle)
	for _, v := range probeValues(a) {
		var ia, ib int
		x.lib("Index", sig, func() { ia, ib = a.Index(v), b.Index(v) })
		if ia != ib {
			x.fail(oracle, sig, fmt.Sprintf("%s: Index(%v) differs", what, v), fmt.Sprint(ia), fmt.Sprint(ib))
		}
		for _, i := range []int{ia - 1, ia, ia + 1} {
			var va, vb, la, lb float64
			x.lib("Value", sig, func() { va, vb, la, lb = a.Value(i), b.Value(i), a.LowerBound(i), b.LowerBound(i) })
			if fbits(va) != fbits(vb) || fbits(la) != fbits(lb) {
				x.fail(oracle, sig, fmt.Sprintf("%s: Value/LowerBound(%d) differ", what, i), fmt.Sprint(va, la), fmt.Sprint(vb, lb))
			}
		}
	}
	var a1, a2, b1, b2, ra, rb float64
	x.lib("ranges", sig, func() {
		a1, a2, b1, b2 = a.MinIndexableValue(), a.MaxIndexableValue(), b.MinIndexableValue(), b.MaxIndexableValue()
		ra, rb = a.RelativeAccuracy(), b.RelativeAccuracy()
	})
	if fbits(a1) != fbits(b1) || fbits(a2) != fbits(b2) || fbits(ra) != fbits(rb) {
		x.fail(oracle, sig, what+": indexable range or reported accuracy differ", fmt.Sprint(a1, a2, ra), fmt.Sprint(b1, b2, rb))
	}
}

func (x *fleetExec) mustEqual(a, b mapping.IndexMapping, oracle, sig, what string) {
	x.st.Oracle(oracle)
	var ab, ba, aa, bb bool
	x.lib("Equals", sig, func() { ab, ba, aa, bb = a.Equals(b), b.Equals(a), a.Equals(a), b.Equals(b) })
	if !aa || !bb {
		x.fail("equals-reflexive-symmetric", sig, what+": a mapping is not equal to itself", "true", "false")
	}
	if ab != ba {
		x.fail("equals-reflexive-symmetric", sig, what+": Equals is not symmetric", fmt.Sprint(ab), fmt.Sprint(ba))
	}
	if !ab {
		x.fail(oracle, sig, what+": the mappings are not equal", "Equals == true", "false")
	}
}

// relay J I S : decode message J into a sketch that adopts the decoded mapping, re-serialise it in form S as message I.
// mapeq N M   : equality relations between the mappings of two nodes.
// mapalpha N  : the mapping built from alpha equals the one built from its base and offset.
// intrude N J : message J, whose mapping differs from node N's, must be refused by N.
func (hookC19) event(x *fleetExec, e engine.Event) bool {
	switch e.Ev {
	case "relay":
		c19Relay(x, e)
	case "mapeq":
		c19MapEq(x, e)
	case "mapalpha":
		c19Alpha(x, e)
	case "intrude":
		c19Intrude(x, e)
	default:
		return false
	}
	return true
}

func c19Relay(x *fleetExec, e engine.Event) {
	m := x.msgs[int(e.J)]
	id := int(e.I)
	if m == nil || id <= 0 || x.msgs[id] != nil || !m.hasMapping {
		return
	}
	if e.S != "bin" && e.S != "pb" && e.S != "pbstream" {
		return
	}
	sig := "relay:" + m.form + ">" + e.S + "/" + m.spec.Map
	origin, err := buildMapping(&m.spec)
	if err != nil {
		return
	}
	var d *ddsketch.DDSketch
	switch m.form {
	case "bin", "foreign":
		x.lib("DecodeDDSketch", sig, func() {
			var derr error
			d, derr = ddsketch.DecodeDDSketch(append([]byte(nil), m.data...), store.SparseStoreConstructor, nil)
			if derr != nil {
				x.fail("hop-equals", sig, "a relay could not decode a valid encoding: "+derr.Error(), "nil error", derr.Error())
			}
		})
	case "pb", "pbstream":
		pb := &sketchpb.DDSketch{}
		if err := proto.Unmarshal(m.data, pb); err != nil {
			x.fail("hop-equals", sig, "a relay could not unmarshal a message: "+err.Error(), "valid protobuf", "error")
		}
		x.lib("FromProtoWithStoreProvider", sig, func() {
			var derr error
			d, derr = ddsketch.FromProtoWithStoreProvider(pb, store.SparseStoreConstructor)
			if derr != nil {
				x.fail("hop-equals", sig, "a relay could not rebuild a sketch from a message: "+derr.Error(), "nil error", derr.Error())
			}
		})
		// the mapping message alone, too
		var mm mapping.IndexMapping
		x.lib("mapping.FromProto", sig, func() {
			var derr error
			mm, derr = mapping.FromProto(pb.Mapping)
			if derr != nil {
				x.fail("hop-equals", sig, "mapping.FromProto failed on a message produced by the library: "+derr.Error(), "nil error", derr.Error())
			}
		})
		x.mustEqual(origin, mm, "hop-equals", sig, "mapping.FromProto(ToProto())")
	default:
		return
	}
	// the mapping alone through the streaming mapping builder, re-used (Reset) across relays of the run
	var mbuf bytes.Buffer
	if x.reusedMapBuilder == nil {
		x.reusedMapBuilder = sketchpb.NewIndexMappingBuilder(&mbuf)
	} else {
		x.reusedMapBuilder.Reset(&mbuf)
		x.st.Probe("mapping-builder-reused")
	}
	x.lib("IndexMapping.EncodeProto(reused builder)", sig, func() { d.IndexMapping.EncodeProto(x.reusedMapBuilder) })
	mpb := &sketchpb.IndexMapping{}
	if err := proto.Unmarshal(mbuf.Bytes(), mpb); err != nil {
		x.fail("hop-equals", sig, "the bytes of a streamed mapping do not unmarshal: "+err.Error(), "a valid IndexMapping message", fmt.Sprintf("%x", mbuf.Bytes()))
	}
	var streamedMapping mapping.IndexMapping
	x.lib("mapping.FromProto", sig, func() {
		var derr error
		streamedMapping, derr = mapping.FromProto(mpb)
		if derr != nil {
			x.fail("hop-equals", sig, "mapping.FromProto failed on a streamed mapping: "+derr.Error(), "nil error", derr.Error())
		}
	})
	x.mustEqual(origin, streamedMapping, "hop-equals", sig, "mapping streamed through a re-used builder")
	x.sameFunction(origin, streamedMapping, "hop-same-function", sig, "mapping streamed through a re-used builder")
	hops := m.hops + 1
	what := fmt.Sprintf("after %d hop(s), last form %s", hops, m.form)
	x.mustEqual(origin, d.IndexMapping, "hop-equals", sig, what)
	x.sameFunction(origin, d.IndexMapping, "hop-same-function", sig, what)
	out := &kmsg{form: e.S, model: m.model.Clone(), spec: m.spec, mkey: m.mkey, sentAt: x.at, parts: 1, hasMapping: true, hops: hops}
	switch e.S {
	case "bin":
		var buf []byte
		x.lib("Encode", sig, func() { d.Encode(&buf, false) })
		out.data = buf
	case "pb":
		var pb *sketchpb.DDSketch
		x.lib("ToProto", sig, func() { pb = d.ToProto() })
		b, err := proto.MarshalOptions{Deterministic: true}.Marshal(pb)
		if err != nil {
			panic(err)
		}
		out.data = b
	case "pbstream":
		w := &simWriter{x: x, sig: sig}
		x.lib("EncodeProto", sig, func() { d.EncodeProto(w) })
		out.data = w.buf.Bytes()
	}
	x.msgs[id] = out
	x.st.Probe(fmt.Sprintf("hops-%d", minInt(hops, 6)))
	x.st.Probe("relay-" + m.form + "-to-" + e.S)
}

// clearlyDifferent decides whether two mapping specs denote clearly different
// mappings: different kinds; the same kind with accuracies 0.1% or more apart;
// or the same kind and base with index offsets that differ by a whole bin or
// more (the receiver would file every value under another index). The last rule
// is used by C08 and C13 ("a mapping that differs"), not by C19, whose statement
// only names kinds and accuracies.
func clearlyDifferent(a, b *engine.Node, offsets bool) (different, decidable bool) {
	if a.Map != b.Map {
		return true, true
	}
	ma, err1 := buildMapping(a)
	mb, err2 := buildMapping(b)
	if err1 != nil || err2 != nil {
		return false, false
	}
	pa, pb := ma.ToProto(), mb.ToProto()
	if fbits(pa.Gamma) == fbits(pb.Gamma) {
		d := math.Abs(pa.IndexOffset - pb.IndexOffset)
		if d == 0 {
			return false, true
		}
		if d >= 1 && offsets {
			return true, true
		}
		return false, false
	}
	if a.ByGam || b.ByGam {
		return false, false
	}
	x, y := float64(a.Alpha), float64(b.Alpha)
	if math.Abs(x-y) >= 1e-3*math.Max(x, y) {
		return true, true
	}
	return false, false
}

func c19MapEq(x *fleetExec, e engine.Event) {
	a, b := x.nodes[e.N], x.nodes[e.M]
	if a == nil || b == nil {
		return
	}
	sig := "mapeq/" + a.spec.Map + "/" + b.spec.Map
	x.st.Oracle("equals-reflexive-symmetric")
	var ab, ba, aa bool
	x.lib("Equals", sig, func() {
		ab, ba, aa = a.mapping.Equals(b.mapping), b.mapping.Equals(a.mapping), a.mapping.Equals(a.mapping)
	})
	if !aa {
		x.fail("equals-reflexive-symmetric", sig, "a mapping is not equal to itself", "true", "false")
	}
	if ab != ba {
		x.fail("equals-reflexive-symmetric", sig, "Equals is not symmetric", fmt.Sprint(ab), fmt.Sprint(ba))
	}
	if a.mkey == b.mkey {
		if !ab {
			x.fail("equals-reflexive-symmetric", sig, "mappings built from identical parameters are not equal", "true", "false")
		}
		return
	}
	if diff, ok := clearlyDifferent(&a.spec, &b.spec, false); ok && diff {
		x.st.Oracle("different-never-equal")
		if ab || ba {
			x.fail("different-never-equal", sig, fmt.Sprintf("mappings %s and %s are reported equal", mapKey(&a.spec), mapKey(&b.spec)), "false", "true")
		}
		x.st.ProbeIf(a.spec.Map == b.spec.Map, "same-kind-different-alpha")
		x.st.ProbeIf(a.spec.Map != b.spec.Map, "different-kinds")
	}
}

func c19Alpha(x *fleetExec, e engine.Event) {
	nd := x.nodes[e.N]
	if nd == nil || nd.spec.ByGam {
		return
	}
	sig := "mapalpha/" + nd.spec.Map
	pb := nd.mapping.ToProto()
	g := engine.Node{Map: nd.spec.Map, Alpha: nd.spec.Alpha, ByGam: true, Gamma: engine.F64(pb.Gamma), Offset: engine.F64(pb.IndexOffset)}
	var m2 mapping.IndexMapping
	x.lib("NewMappingWithGamma", sig, func() {
		var err error
		m2, err = buildMapping(&g)
		if err != nil {
			x.fail("alpha-vs-gamma", sig, "the constructor from base and offset refused the base of a valid mapping: "+err.Error(), "accepted", err.Error())
		}
	})
	x.mustEqual(nd.mapping, m2, "alpha-vs-gamma", sig, "mapping from alpha vs mapping from its base and offset")
	x.sameFunction(nd.mapping, m2, "alpha-vs-gamma", sig, "mapping from alpha vs mapping from its base and offset")
	// the binary form of the mapping alone
	var buf []byte
	x.lib("mapping.Encode", sig, func() { nd.mapping.Encode(&buf) })
	blocks, err := refmodel.DocParse(buf)
	if err != nil || len(blocks) != 1 || blocks[0].Type != refmodel.DocTypeMapping {
		x.fail("hop-equals", sig, "the binary form of a mapping is not one mapping block", "one mapping block", fmt.Sprintf("%x", buf))
	}
}

func c19Intrude(x *fleetExec, e engine.Event) {
	nd := x.nodes[e.N]
	m := x.msgs[int(e.J)]
	if nd == nil || m == nil || m.form != "bin" || m.mkey == nd.mkey || nd.exact() && !m.exact {
		return
	}
	if diff, ok := clearlyDifferent(&m.spec, &nd.spec, false); !ok || !diff {
		return
	}
	sig := "intrude/" + nd.spec.Map + "/" + m.spec.Map
	x.st.Oracle("different-never-equal")
	var c sk
	var err error
	x.lib("Copy", sig, func() { c = copySk(nd.real) })
	x.lib("DecodeAndMergeWith", sig, func() { err = c.DecodeAndMergeWith(append([]byte(nil), m.data...)) })
	if err == nil {
		x.fail("different-never-equal", sig, "a sketch accepted an encoding whose mapping clearly differs from its own (the gate is mapping equality)", "an error", "nil")
	}
	x.st.Fault("intruder-message")
}

func init() {
	fleetHooks["C09"] = func() fleetHook { return hookC09{} }
	fleetHooks["C19"] = func() fleetHook { return hookC19{} }
}
