//go:build verif

package worlds

import "github.com/DataDog/sketches-go/ddsketch/store"

type layout = store.VerifLayout

const hooksAvailable = true

func inspect(s store.Store) (layout, bool) { return store.VerifInspect(s) }
