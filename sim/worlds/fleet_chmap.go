package worlds

import (
	"fmt"
	"math"
	"math/big"
	"sort"

	"github.com/DataDog/sketches-go/ddsketch"
	"github.com/DataDog/sketches-go/ddsketch/store"

	"verif/sim/engine"
	"verif/sim/refmodel"
)

// chmap N M W : node M := N.ChangeMapping(mapping and store kind of the (lazy)
// node spec M, scale factor W). The converter node of the fleet.
//
// The result's bins are arbitrary fractions of the source's, so the new node
// is tainted (DESIGN 4.7): its model keeps the scaled absorbed values and the
// zero weight; bin-level expectations come from the source's real bins.
type chmapInfo struct {
	src, dst  *knode
	scale     float64
	identity  bool
	srcBefore *skSnap
	// the stores the caller supplied to the plain variant (it keeps these handles)
	posArg, negArg store.Store
}

func (x *fleetExec) chmap(e engine.Event, nd *knode, sig string) bool {
	spec := x.plan.NodeByID(e.M)
	scale := float64(e.W)
	if spec == nil || !spec.Lazy || x.nodes[e.M] != nil || !(scale > 0) || math.IsInf(scale, 0) || !validSpec(spec) {
		return false
	}
	if spec.Role != nd.spec.Role {
		return false
	}
	nm, err := buildMapping(spec)
	if err != nil {
		return false
	}
	// values must be well inside both mappings' ranges after scaling
	items := nd.model.Sorted(0)
	oldLo, oldHi := nd.mapping.MinIndexableValue(), nd.mapping.MaxIndexableValue()
	newLo, newHi := nm.MinIndexableValue(), nm.MaxIndexableValue()
	var minAbs, maxAbs float64
	for _, it := range items {
		a := math.Abs(it.V)
		if a < oldLo {
			continue // zero bucket: the zero weight is kept as it is
		}
		if a < oldLo*1e3 || a > oldHi/1e3 || a*scale < newLo*1e3 || a*scale > newHi/1e3 {
			return false
		}
		if minAbs == 0 || a < minAbs {
			minAbs = a
		}
		if a > maxAbs {
			maxAbs = a
		}
	}
	if nd.model.Lossy || nd.model.Folded() {
		return false // collapsed content may sit far from the absorbed values
	}
	// "with an equal mapping and scale 1 the result is an exact copy": equal in the library's own sense
	// (two mappings built from an accuracy and from the corresponding base differ by an ulp and are equal)
	identity := false
	if scale == 1 {
		x.lib("Equals", sig, func() { identity = nd.mapping.Equals(nm) })
		if diff, ok := clearlyDifferent(&nd.spec, spec, true); identity && ok && diff {
			// the library's word is taken only where the two mappings are within its tolerance of each other:
			// a request for a clearly different mapping is a conversion and is checked as one
			identity = false
			x.st.Probe("chmap-equals-disagrees-with-specs")
		}
	}
	if !identity {
		// resource guards: size of the result and fan-out of one source bin
		a1, a2 := nd.alpha(), float64(spec.Alpha)
		fan := math.Log((1+a1)/(1-a1)) / math.Log((1+a2)/(1-a2))
		if fan > 3000 {
			return false
		}
		if minAbs > 0 {
			span := nm.Index(maxAbs*scale) - nm.Index(minAbs*scale) + int(fan) + 4
			if span >= spanBudget(spec.Store) {
				return false
			}
		}
	}
	dst := &knode{spec: *spec, mapping: nm, mkey: mapKey(spec), tainted: !identity || nd.tainted}
	if identity {
		// documented: with an equal mapping and scale 1 the result is a copy of the source - it
		// keeps the source's store kind, the supplied stores are not used
		dst.spec.Store, dst.spec.N = nd.spec.Store, nd.spec.N
		// ... and the source's mapping object
		dst.spec.Map, dst.spec.Alpha, dst.spec.ByGam, dst.spec.Gamma, dst.spec.Offset = nd.spec.Map, nd.spec.Alpha, nd.spec.ByGam, nd.spec.Gamma, nd.spec.Offset
		dst.mapping, dst.mkey = nd.mapping, nd.mkey
		nm = nd.mapping
		spec = &dst.spec
	}
	if nm != nd.mapping && mapKey(spec) == nd.mkey && e.M%2 == 0 {
		// the caller hands the sketch its own mapping object (a pure unit change when the scale is not 1)
		nm = mappingOf(nd.real)
		x.st.Probe("chmap-with-the-sketch's-own-mapping-object")
	}
	var posArg, negArg store.Store
	x.lib("ChangeMapping", sig, func() {
		switch s := nd.real.(type) {
		case *ddsketch.DDSketch:
			posArg, negArg = newRealStore(spec.Store, spec.N), newRealStore(spec.Store, spec.N)
			dst.real = s.ChangeMapping(nm, posArg, negArg, scale)
		case *ddsketch.DDSketchWithExactSummaryStatistics:
			dst.real = s.ChangeMapping(nm, providerFor(spec.Store, spec.N), scale)
		}
	})
	if x.prop == "C14" {
		x.lib("ChangeMapping(replica)", sig, func() {
			switch s := nd.replica.(type) {
			case *ddsketch.DDSketch:
				dst.replica = s.ChangeMapping(nm, newRealStore(spec.Store, spec.N), newRealStore(spec.Store, spec.N), scale)
			case *ddsketch.DDSketchWithExactSummaryStatistics:
				dst.replica = s.ChangeMapping(nm, providerFor(spec.Store, spec.N), scale)
			}
		})
	}
	if identity {
		dst.model = nd.model.CloneAs(spec.Store, spec.N)
	} else {
		dst.model = refmodel.NewRefSketch(spec.Store, spec.N)
		dst.model.Zero = nd.model.Zero
		dst.model.Tainted = true
		dst.model.NonUnit = nd.model.NonUnit
		dst.model.ValTotal, dst.model.ValGran, dst.model.SumOverflow = nd.model.ValTotal, nd.model.ValGran, nd.model.SumOverflow
		dst.model.PosOver, dst.model.NegOver = nd.model.PosOver, nd.model.NegOver
		for _, it := range items {
			v := it.V
			if math.Abs(v) >= oldLo {
				v = v * scale
			} else {
				v = v * scale // sub-minimum values stay in the zero bucket; the statistics are rescaled all the same
			}
			dst.model.Vals[math.Float64bits(v)] += it.W
		}
	}
	x.nodes[e.M] = dst
	x.order = append(x.order, e.M)
	x.lastChmap = &chmapInfo{src: nd, dst: dst, scale: scale, identity: identity, posArg: posArg, negArg: negArg}
	x.st.ProbeIf(identity, "chmap-identity")
	x.st.Probe("chmap-" + nd.spec.Map + "-to-" + spec.Map)
	return true
}

// ---- C17 -----------------------------------------------------------------------------------

type hookC17 struct{ noHook }

func (hookC17) before(x *fleetExec, e engine.Event, nd *knode) func() {
	if e.Ev != "chmap" {
		return nil
	}
	before := x.snapSketch(nd.real, "chmap-source-before")
	x.lastChmap = nil
	return func() {
		info := x.lastChmap
		if info == nil {
			return
		}
		sig := x.sigFor(e) + "/to-" + info.dst.spec.Map + "/" + info.dst.spec.Store
		x.st.Oracle("source-unchanged")
		after := x.snapSketch(nd.real, "chmap-source-after")
		if d := before.diff(after, nd.tainted); d != "" {
			x.fail("source-unchanged", sig, "ChangeMapping changed its source: "+d, before.String(), after.String())
		}
		c17Check(x, info, before, sig)
	}
}

func c17Check(x *fleetExec, info *chmapInfo, src *skSnap, sig string) {
	d := info.dst
	res := x.snapSketch(d.real, "chmap-result")
	x.st.Note(res.hash())
	// the requested mapping
	x.st.Oracle("mapping-carried")
	var eq bool
	x.lib("Equals", sig, func() { eq = mappingOf(d.real).Equals(d.mapping) && d.mapping.Equals(mappingOf(d.real)) })
	if !eq {
		x.fail("mapping-carried", sig, "the result does not carry the requested mapping", mapKey(&d.spec), fmt.Sprint(mappingOf(d.real)))
	}
	if info.identity {
		x.st.Oracle("identity-is-copy")
		if diff := src.diff(res, info.src.tainted); diff != "" {
			x.fail("identity-is-copy", sig, "with an equal mapping and scale 1 the result is not an exact copy: "+diff, src.String(), res.String())
		}
		return
	}
	if info.posArg != nil {
		// the caller's handles: positive content was to go into positiveStore, negative into negativeStore
		x.st.Oracle("sides-as-supplied")
		// (bins only: a total of non-dyadic weights is a sum in iteration order and may differ between two calls)
		if p := x.snapStore(info.posArg, "supplied-positive-store"); refmodel.DiffBins(res.Pos.Bins, p.Bins) != "" {
			x.fail("sides-as-supplied", sig, "the store supplied as positiveStore does not hold the positive side of the result: "+refmodel.DiffBins(res.Pos.Bins, p.Bins), res.Pos.String(), p.String())
		}
		if n := x.snapStore(info.negArg, "supplied-negative-store"); refmodel.DiffBins(res.Neg.Bins, n.Bins) != "" {
			x.fail("sides-as-supplied", sig, "the store supplied as negativeStore does not hold the negative side of the result: "+refmodel.DiffBins(res.Neg.Bins, n.Bins), res.Neg.String(), n.String())
		}
	}
	x.st.Oracle("zero-exact")
	if fbits(res.Zero) != fbits(src.Zero) {
		x.fail("zero-exact", sig, "the zero weight changed", fmt.Sprint(src.Zero), fmt.Sprint(res.Zero))
	}
	alpha2 := d.alpha()
	// a bounded target that had to fold the converted content answers for C05, not here
	folded := func(sn *storeSnap) bool {
		return refmodel.IsCollapsing(d.spec.Store) && !sn.MinErr && sn.Max-sn.Min+1 >= d.spec.N
	}
	targetFolded := folded(res.Pos) || folded(res.Neg)
	x.st.ProbeIf(targetFolded, "target-store-folded(transport-and-rank-skipped)")
	for sideName, pair := range map[string][2]*storeSnap{"positive": {src.Pos, res.Pos}, "negative": {src.Neg, res.Neg}} {
		sb, rb := pair[0].Bins, pair[1].Bins
		W := 0.0
		for _, b := range sb {
			W += b.Count
		}
		W2 := 0.0
		x.st.Oracle("no-negative-bin")
		// negative weights are invisible to ForEach (it skips non-positive bins): look at the bin stream too
		var streamed []refmodel.RefBin
		st := d.real.GetPositiveValueStore()
		if sideName == "negative" {
			st = d.real.GetNegativeValueStore()
		}
		x.lib("Bins", sig, func() {
			for b := range st.Bins() {
				streamed = append(streamed, refmodel.RefBin{Index: b.Index(), Count: b.Count()})
			}
		})
		for _, b := range streamed {
			if b.Count < 0 {
				x.fail("no-negative-bin", sig, fmt.Sprintf("the %s side of the result has a bin of negative weight", sideName), ">= 0", fmt.Sprintf("%d:%v", b.Index, b.Count))
			}
		}
		for _, b := range rb {
			if b.Count < 0 {
				x.fail("no-negative-bin", sig, fmt.Sprintf("the %s side of the result has a bin of negative weight", sideName), ">= 0", fmt.Sprintf("%d:%v", b.Index, b.Count))
			}
			W2 += b.Count
		}
		var total float64
		x.lib("TotalCount", sig, func() { total = st.TotalCount() })
		x.st.Oracle("weight-conserved")
		if math.Abs(W2-W) > 1e-9*W || math.Abs(total-W) > 1e-9*W {
			x.fail("weight-conserved", sig, fmt.Sprintf("the %s side does not keep its total weight", sideName), fmt.Sprint(W), fmt.Sprintf("bins sum to %v, TotalCount %v", W2, total))
		}
		if total < 0 || (W == 0 && len(rb) > 0) {
			x.fail("weight-conserved", sig, fmt.Sprintf("the %s side gained weight from nothing", sideName), "empty", refmodel.BinsString(rb))
		}
		// transport: each source bin's weight goes only to target bins overlapping its scaled range
		// <=> for every target boundary t: weight(result below t) lies between the weight of source bins
		// entirely below t and the weight of source bins not entirely above t (up to slivers)
		if targetFolded {
			continue
		}
		x.st.Oracle("transport-monotone")
		om := info.src.mapping
		type srange struct{ lo, hi, w float64 }
		srs := make([]srange, len(sb))
		for i, b := range sb {
			srs[i] = srange{om.LowerBound(b.Index) * info.scale, om.LowerBound(b.Index+1) * info.scale, b.Count}
		}
		cum := 0.0
		for _, b := range rb {
			cum += b.Count // weight of result bins with index <= b.Index, i.e. below t = LowerBound(b.Index+1)
			t := d.mapping.LowerBound(b.Index + 1)
			tlo := d.mapping.LowerBound(b.Index)
			lower, upper := 0.0, 0.0
			for _, s := range srs {
				if s.hi <= t*(1+1e-12) {
					lower += s.w
				}
				if s.lo < t*(1-1e-12) {
					upper += s.w
				}
			}
			// slivers: a boundary of the interpolated mappings is only accurate to about 1e-12 relative,
			// which is a fraction 1e-12/alpha of a bin's width (and hence of its weight)
			sl := math.Max(1e-9, 1e-12/math.Min(info.src.alpha(), alpha2))*W + 1e-12
			if cum < lower-sl || cum > upper+sl {
				x.fail("transport-monotone", sig, fmt.Sprintf("%s side: weight of the result below %v is outside what the source holds below it", sideName, t),
					fmt.Sprintf("between %v and %v", lower, upper), fmt.Sprint(cum))
			}
			// and the bin itself must overlap some scaled source range
			if b.Count > sl {
				overlaps := false
				for _, s := range srs {
					if s.lo < t*(1+1e-12) && s.hi > tlo*(1-1e-12) {
						overlaps = true
						break
					}
				}
				if !overlaps {
					x.fail("transport-monotone", sig, fmt.Sprintf("%s side: result bin %d [%v, %v) holds weight %v but overlaps no scaled source bin", sideName, b.Index, tlo, t, b.Count), "overlap", "none")
				}
			}
		}
		x.st.ProbeIf(len(sb) > 0, "converted-"+sideName+"-side")
	}
	// quantiles: within alpha2 of a point of the scaled range of a source bin whose cumulative interval meets [r-1, r+1]
	x.st.Oracle("rank-window")
	type sbin struct{ lo, hi, w float64 }
	var all []sbin // ascending value order
	om := info.src.mapping
	for i := len(src.Neg.Bins) - 1; i >= 0; i-- {
		b := src.Neg.Bins[i]
		all = append(all, sbin{-om.LowerBound(b.Index+1) * info.scale, -om.LowerBound(b.Index) * info.scale, b.Count})
	}
	if src.Zero > 0 {
		all = append(all, sbin{0, 0, src.Zero})
	}
	for _, b := range src.Pos.Bins {
		all = append(all, sbin{om.LowerBound(b.Index) * info.scale, om.LowerBound(b.Index+1) * info.scale, b.Count})
	}
	W := 0.0
	for _, b := range all {
		W += b.w
	}
	subMin := info.src.mapping.MinIndexableValue() * info.scale
	if W > 0 && !res.QuantErr && !targetFolded {
		for qi, q := range snapGrid {
			got := res.Quant[qi]
			r := q * (W - 1)
			cum := 0.0
			// the exact variant clamps to its exact extremes: at least as accurate
			ok := info.src.exact() && (got == res.Min || got == res.Max)
			for _, b := range all {
				c0 := cum
				cum += b.w
				if c0 <= r+1+1e-6*(W+1) && cum >= r-1-1e-6*(W+1) {
					// within alpha2 of some point of [lo, hi]
					lo, hi := b.lo, b.hi
					if lo == 0 && hi == 0 {
						// the zero bucket; the exact variant clamps to its exact extremes, which may be
						// (scaled) sub-minimum values: they count as 0 as well
						if got == 0 || (info.src.exact() && math.Abs(got) < subMin) {
							ok = true
						}
					} else if got >= lo*(1-sgn(lo)*(alpha2+1e-9)) && got <= hi*(1+sgn(hi)*(alpha2+1e-9)) {
						ok = true
					}
				}
				if ok {
					break
				}
			}
			if !ok {
				x.fail("rank-window", sig, fmt.Sprintf("quantile %v of the result (%v) is not within alpha=%v of the scaled source content at a rank within one unit of weight", q, got, alpha2), "near the scaled source quantile", fmt.Sprint(got))
			}
		}
	}
	if res.QuantErr != (W == 0) && !(W > 0 && res.QuantErr == false) {
		x.fail("rank-window", sig, "quantile queries of the result fail although the source is not empty", "answers", "error")
	}
	// exact statistics are rescaled by the factor
	if info.src.exact() {
		x.st.Oracle("stats-rescaled")
		lo, hi, any := info.src.model.TrueMinMax()
		if any {
			if res.Min != lo*info.scale || res.Max != hi*info.scale {
				x.fail("stats-rescaled", sig, "exact minimum/maximum are not the source's multiplied by the factor", fmt.Sprint(lo*info.scale, hi*info.scale), fmt.Sprint(res.Min, res.Max))
			}
			if res.Count != src.Count {
				x.fail("stats-rescaled", sig, "the exact count changed", fmt.Sprint(src.Count), fmt.Sprint(res.Count))
			}
			sum, abs := info.src.model.ExactSum()
			want, _ := new(big.Float).Mul(sum, big.NewFloat(info.scale)).Float64()
			tol, _ := new(big.Float).Mul(abs, big.NewFloat(info.scale*64*0x1p-53)).Float64()
			if math.Abs(res.Sum-want) > tol+1e-300 {
				x.fail("stats-rescaled", sig, "the exact sum is not the source's multiplied by the factor", fmt.Sprint(want), fmt.Sprint(res.Sum))
			}
		}
	}
	a1, a2 := info.src.alpha(), alpha2
	x.st.ProbeIf(a2 > a1*1.01, "to-coarser-mapping")
	x.st.ProbeIf(a2 < a1*0.99, "to-finer-mapping")
	x.st.ProbeIf(math.Abs(a2-a1) <= 0.01*a1, "to-equal-accuracy")
	x.st.ProbeIf(info.scale != 1, "scale-not-one")
}

func sgn(v float64) float64 {
	if v < 0 {
		return -1
	}
	return 1
}

func (hookC17) query(x *fleetExec, e engine.Event, nd *knode) {}

var _ = sort.Ints

func init() {
	fleetHooks["C17"] = func() fleetHook { return hookC17{} }
}
