//go:build !verif

package worlds

import "github.com/DataDog/sketches-go/ddsketch/store"

// Without the introspection hook only the observable bounds are checked and
// no layout probes are counted.
type layout struct {
	Kind                                             string
	ArrayLen, Offset, MinIndex, MaxIndex, MaxNumBins int
	Collapsed                                        bool
	BufferLen, BufferCap, CompactionTrigger          int
	PageSlots, AllocatedPages, MinPageIndex          int
	PagesUnused                                      bool
}

const hooksAvailable = false

func inspect(s store.Store) (layout, bool) { return layout{}, false }
