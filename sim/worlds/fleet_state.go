package worlds

import (
	"fmt"
	"math"
	"math/big"

	"github.com/DataDog/sketches-go/ddsketch"

	"verif/sim/engine"
	"verif/sim/refmodel"
)

// ---- C02: full mergeability ---------------------------------------------------------------------

type hookC02 struct{ noHook }

// singleCopy builds S*: a fresh real sketch of a non-collapsing kind chosen by
// the event number, fed with exactly the values (with multiplicities) the
// model says the merged sketch holds.
func (x *fleetExec) singleCopy(nd *knode, sig string) sk {
	kind := plainKinds[x.at%3]
	for _, side := range []*refmodel.RefStore{nd.model.Pos, nd.model.Neg} {
		if lo, hi, ok := side.RawSpan(); ok && hi-lo >= spanBudget(kind) {
			kind = refmodel.Sparse // the single copy must not need more memory than the budgets allow
		}
	}
	spec := nd.spec
	spec.Store, spec.N, spec.Role = kind, 0, "sketch"
	s := x.newSketch(&spec, nd.mapping)
	for _, it := range nd.model.Sorted(0) {
		v, w := it.Raw, it.W
		if !nd.model.NonUnit && w <= 512 {
			for k := 0; k < int(w); k++ {
				x.lib("Add(S*)", sig, func() {
					if err := s.Add(v); err != nil {
						x.fail("single-copy-bins", sig, "the single copy refused a value the fleet accepted: "+err.Error(), "accepted", err.Error())
					}
				})
			}
			continue
		}
		x.lib("AddWithCount(S*)", sig, func() {
			if err := s.AddWithCount(v, w); err != nil {
				x.fail("single-copy-bins", sig, "the single copy refused a value the fleet accepted: "+err.Error(), "accepted", err.Error())
			}
		})
	}
	return s
}

func (x *fleetExec) c02Compare(nd *knode, sig, when string) {
	if nd.model.Lossy || nd.model.Folded() || nd.exact() {
		return
	}
	star := x.singleCopy(nd, sig)
	a := x.snapSketch(nd.real, "merged")
	b := x.snapSketch(star, "single-copy")
	x.st.Note(a.hash())
	x.st.Oracle("single-copy-bins")
	if d := refmodel.DiffBins(b.Pos.Bins, a.Pos.Bins); d != "" {
		x.fail("single-copy-bins", sig, when+": positive bins differ from a single sketch fed the whole input: "+d, refmodel.BinsString(b.Pos.Bins), refmodel.BinsString(a.Pos.Bins))
	}
	if d := refmodel.DiffBins(b.Neg.Bins, a.Neg.Bins); d != "" {
		x.fail("single-copy-bins", sig, when+": negative bins differ from a single sketch fed the whole input: "+d, refmodel.BinsString(b.Neg.Bins), refmodel.BinsString(a.Neg.Bins))
	}
	x.st.Oracle("single-copy-queries")
	if d := b.diff(a, false); d != "" {
		x.fail("single-copy-queries", sig, when+": the merged sketch answers differently from a single sketch fed the whole input: "+d, b.String(), a.String())
	}
}

func (hookC02) before(x *fleetExec, e engine.Event, nd *knode) func() {
	if e.Ev != "merge" {
		return nil
	}
	src := x.nodes[e.M]
	if src == nil || src == nd {
		return nil
	}
	sig := x.sigFor(e)
	argBefore := x.snapSketch(src.real, "merge-arg-before")
	var dstBefore *skSnap
	if src.model.IsEmpty() {
		dstBefore = x.snapSketch(nd.real, "merge-dst-before")
	}
	return func() {
		x.st.Oracle("argument-unchanged")
		argAfter := x.snapSketch(src.real, "merge-arg-after")
		if d := argBefore.diff(argAfter, false); d != "" {
			x.fail("argument-unchanged", sig, "MergeWith changed the sketch passed as argument: "+d, argBefore.String(), argAfter.String())
		}
		if dstBefore != nil {
			x.st.Oracle("empty-merge-noop")
			dstAfter := x.snapSketch(nd.real, "merge-dst-after")
			if d := dstBefore.diff(dstAfter, false); d != "" {
				x.fail("empty-merge-noop", sig, "merging an empty sketch changed the receiver: "+d, dstBefore.String(), dstAfter.String())
			}
		}
	}
}

func (hookC02) after(x *fleetExec, e engine.Event, nd *knode) {
	if e.Ev == "merge" || e.Ev == "deliver" {
		x.c02Compare(nd, x.sigFor(e), "after "+e.Ev)
		x.st.ProbeIf(e.Ev == "merge" && x.nodes[e.M] != nil && x.nodes[e.M].spec.Store != nd.spec.Store, "merge-across-store-kinds")
		x.st.ProbeIf(e.Ev == "merge" && x.nodes[e.M] != nil && x.nodes[e.M].model.IsEmpty(), "merge-of-empty-argument")
		x.st.ProbeIf(nd.model.IsEmpty(), "merge-into-empty-or-cleared-receiver")
	}
}

// quiesce: after faults stopped and queues drained every node equals the
// single copy of everything that reached it.
func (hookC02) quiesce(x *fleetExec) {
	for _, id := range sortedNodeIDs(x) {
		nd := x.nodes[id]
		x.st.Oracle("converges-after-faults")
		x.c02Compare(nd, "quiesce/"+nd.spec.Store, "at quiescence")
	}
}

// ---- C10: exact summary statistics ----------------------------------------------------------------

type hookC10 struct{ noHook }

func (hookC10) after(x *fleetExec, e engine.Event, nd *knode) {
	c10Check(x, e, nd)
	if e.Ev == "chmap" && x.lastChmap != nil {
		c10Check(x, e, x.lastChmap.dst)
	}
	if e.Ev == "copy" {
		if c := x.nodes[e.M]; c != nil {
			c10Check(x, e, c)
		}
	}
}

func (hookC10) query(x *fleetExec, e engine.Event, nd *knode) { c10Check(x, e, nd) }

// quiesce: every node once more - statistics objects must not be shared between sketches.
func (hookC10) quiesce(x *fleetExec) {
	for _, id := range sortedNodeIDs(x) {
		c10Check(x, engine.Event{Ev: "quiesce", N: id}, x.nodes[id])
	}
}

// badadd N V W : a refused or weightless addition; the statistics must not move.
func (hookC10) event(x *fleetExec, e engine.Event) bool {
	if e.Ev == "badmerge" {
		c10BadMerge(x, e)
		return true
	}
	if e.Ev == "marathon" {
		c10Marathon(x, e)
		return true
	}
	if e.Ev != "badadd" {
		return false
	}
	nd := x.nodes[e.N]
	if nd == nil {
		return true
	}
	v, w := float64(e.V), float64(e.W)
	refused := math.IsNaN(v) || math.Abs(v) > nd.mapping.MaxIndexableValue() || w < 0
	if !refused && w != 0 {
		return true
	}
	if math.IsNaN(w) || math.IsInf(w, 0) {
		return true
	}
	sig := "badadd/" + nd.spec.Role + "/" + nd.spec.Store
	var err error
	x.lib("AddWithCount", sig, func() { err = nd.real.AddWithCount(v, w) })
	if refused && w != 0 && err == nil {
		return true // that is C13's business; the model would no longer match, stop looking at this node
	}
	x.st.ProbeIf(refused, "refused-value-offered")
	x.st.ProbeIf(w == 0, "weightless-value-offered")
	c10Check(x, e, nd)
	return true
}

// marathon N I S V : a long chain on a copy of node N: I times "take a snapshot (S = copy), ship
// the state (S = wire: encode, decode, continue with the decoded sketch) or receive a one-value sketch
// (S = merge), and absorb the value V". Afterwards the exact sum must still be within the stated few
// ulps of the total of |value*weight|, the count exact, the extremes exact. Node N itself is untouched.
func c10Marathon(x *fleetExec, e engine.Event) {
	nd := x.nodes[e.N]
	k, mode, v := int(e.I), e.S, float64(e.V)
	if nd == nil || nd.dirty || nd.tainted || !nd.exact() || nd.model.SumOverflow || k < 10 || k > 8000 {
		return
	}
	if !(v > nd.mapping.MinIndexableValue()*1e3 && v < nd.mapping.MaxIndexableValue()/1e3 && v < 1e200) {
		return
	}
	if _, idx := route(nd.mapping, v); !x.spanOK(nd, 1, idx, idx) || !nd.model.FitsAfter(float64(k), 0) {
		return
	}
	sig := "marathon/" + mode
	acc := copySk(nd.real).(*ddsketch.DDSketchWithExactSummaryStatistics)
	prov := providerFor(nd.spec.Store, nd.spec.N)
	for i := 0; i < k; i++ {
		switch mode {
		case "copy":
			x.lib("Copy", sig, func() { acc = acc.Copy() })
		case "wire":
			var b []byte
			x.lib("Encode", sig, func() { acc.Encode(&b, false) })
			x.lib("Decode", sig, func() {
				d, err := ddsketch.DecodeDDSketchWithExactSummaryStatistics(b, prov, nil)
				if err != nil {
					x.fail("accepts-valid", sig, "decoding a valid encoding failed: "+err.Error(), "nil error", err.Error())
				}
				acc = d
			})
		case "merge":
			t := ddsketch.NewDDSketchWithExactSummaryStatistics(nd.mapping, prov)
			x.lib("Add", sig, func() { t.Add(v) })
			x.lib("MergeWith", sig, func() {
				if err := acc.MergeWith(t); err != nil {
					x.fail("accepts-valid", sig, "merging sketches with equal mappings was refused: "+err.Error(), "accepted", err.Error())
				}
			})
			continue
		default:
			return
		}
		x.lib("Add", sig, func() {
			if err := acc.Add(v); err != nil {
				x.fail("accepts-valid", sig, "a valid value was refused: "+err.Error(), "accepted", err.Error())
			}
		})
	}
	x.st.Probe("marathon-" + mode)
	es, ea := nd.model.ExactSum()
	kv := new(big.Float).SetPrec(2400).SetFloat64(v)
	kv.Mul(kv, new(big.Float).SetPrec(2400).SetInt64(int64(k)))
	es.Add(es, kv)
	ea.Add(ea, kv)
	want, _ := es.Float64()
	tol, _ := new(big.Float).Mul(ea, big.NewFloat(32*0x1p-53)).Float64()
	x.st.Oracle("sum")
	if got := acc.GetSum(); math.Abs(got-want) > tol+1e-290 || math.IsNaN(got) {
		x.fail("sum", sig, fmt.Sprintf("after %d steps of (%s, Add(%v)) the exact sum is further from the true sum than a few ulps of the total of |value*weight|", k, mode, v), fmt.Sprintf("%v +- %v", want, tol), fmt.Sprint(got))
	}
	x.st.Oracle("count")
	if got, wantC := acc.GetCount(), nd.model.Count()+float64(k); got != wantC {
		x.fail("count", sig, fmt.Sprintf("after %d steps of (%s, Add) the exact count is wrong", k, mode), fmt.Sprint(wantC), fmt.Sprint(got))
	}
	lo, hi, any := nd.model.TrueMinMax()
	if !any || v < lo {
		lo = v
	}
	if !any || v > hi {
		hi = v
	}
	x.st.Oracle("min-max")
	mn, e1 := acc.GetMinValue()
	mx, e2 := acc.GetMaxValue()
	if e1 != nil || e2 != nil || mn != lo || mx != hi {
		x.fail("min-max", sig, "exact minimum/maximum differ from the true extremes after the chain", fmt.Sprintf("min=%v max=%v", lo, hi), fmt.Sprintf("min=%v(err=%v) max=%v(err=%v)", mn, e1, mx, e2))
	}
}

// badmerge N M : node N is asked to merge node M, whose mapping clearly differs. The
// refusal is C13's statement; here the statistics of N must still describe its content.
func c10BadMerge(x *fleetExec, e engine.Event) {
	nd, src := x.nodes[e.N], x.nodes[e.M]
	if nd == nil || src == nil || nd == src || nd.dirty || src.dirty || !nd.exact() || !src.exact() || src.model.IsEmpty() {
		return
	}
	if diff, ok := clearlyDifferent(&nd.spec, &src.spec, true); !ok || !diff {
		return
	}
	sig := "badmerge/" + nd.spec.Role + "/" + nd.spec.Store
	var err error
	x.lib("MergeWith", sig, func() {
		err = nd.real.(*ddsketch.DDSketchWithExactSummaryStatistics).MergeWith(src.real.(*ddsketch.DDSketchWithExactSummaryStatistics))
	})
	if err == nil {
		nd.dirty = true // accepted: C13's business; this node no longer matches its model
		return
	}
	x.st.Fault("merge-refused-mapping-mismatch")
	c10Check(x, e, nd)
}

func c10Check(x *fleetExec, e engine.Event, nd *knode) {
	if !nd.exact() {
		return
	}
	sig := x.sigFor(e)
	s := nd.real.(*ddsketch.DDSketchWithExactSummaryStatistics)
	m := nd.model
	wantCount := m.ValsCount()
	var count, sum, mn, mx float64
	var empty bool
	var e1, e2 error
	x.lib("GetCount", sig, func() { count = s.GetCount() })
	x.lib("GetSum", sig, func() { sum = s.GetSum() })
	x.lib("IsEmpty", sig, func() { empty = s.IsEmpty() })
	x.lib("GetMinValue", sig, func() { mn, e1 = s.GetMinValue() })
	x.lib("GetMaxValue", sig, func() { mx, e2 = s.GetMaxValue() })
	x.st.Note(fbits(count) ^ engine.Hash64(fbits(sum)))
	x.st.Oracle("count")
	if count != wantCount {
		x.fail("count", sig, "the exact count differs from the total absorbed weight", fmt.Sprint(wantCount), fmt.Sprint(count))
	}
	x.st.Oracle("empty")
	if empty != (wantCount == 0) {
		x.fail("empty", sig, "IsEmpty does not hold exactly when nothing with positive weight was absorbed", fmt.Sprint(wantCount == 0), fmt.Sprint(empty))
	}
	lo, hi, any := m.TrueMinMax()
	x.st.Oracle("min-max")
	if !any {
		if e1 == nil || e2 == nil {
			x.fail("min-max", sig, "minimum/maximum of an empty sketch must be refused", "errors", fmt.Sprint(mn, mx))
		}
		x.st.Oracle("sum")
		if sum != 0 {
			x.fail("sum", sig, "an empty sketch reports a non-zero exact sum (the total of |value*weight| is 0)", "0", fmt.Sprint(sum))
		}
		return
	}
	if e1 != nil || e2 != nil || mn != lo || mx != hi {
		x.fail("min-max", sig, "exact minimum/maximum differ from the true extremes of everything absorbed", fmt.Sprintf("min=%v max=%v", lo, hi), fmt.Sprintf("min=%v(err=%v) max=%v(err=%v)", mn, e1, mx, e2))
	}
	x.st.Oracle("sum")
	es, ea := m.ExactSum()
	want, _ := es.Float64()
	tol, _ := new(big.Float).Mul(ea, big.NewFloat(32*0x1p-53)).Float64()
	if m.Tainted {
		tol *= 4 // values were rescaled in floating point by the unit change
	}
	absSum, _ := ea.Float64()
	if !(absSum < 1e300) {
		m.SumOverflow = true // sticky: the running sum may be infinite from now on, whatever follows
	}
	// which infinities a running sum can have reached so far (DESIGN 15.4-23)
	posAbs, negAbs := 0.0, 0.0
	for _, it := range m.Sorted(0) {
		if t := it.V * it.W; t > 0 {
			posAbs += t
		} else if t < 0 {
			negAbs -= t
		}
	}
	if !(posAbs < 1e300) {
		m.PosOver = true
	}
	if !(negAbs < 1e300) {
		m.NegOver = true
	}
	switch {
	case math.IsNaN(sum) && !(m.PosOver && m.NegOver):
		x.fail("sum", sig, "the exact sum is NaN although the contributions of one sign never came near the float64 range (an overflowed sum must read as that infinity)", "a number or one infinity", "NaN")
	case math.IsInf(sum, 1) && !m.PosOver, math.IsInf(sum, -1) && !m.NegOver:
		x.fail("sum", sig, "the exact sum is an infinity that the contributions of that sign never came near", fmt.Sprintf("%v +- %v", want, tol), fmt.Sprint(sum))
	}
	if math.Abs(sum-want) > tol+1e-290 && !m.SumOverflow { // sums in the subnormal range lose bits to underflow
		x.fail("sum", sig, "the exact sum is further from the true sum than a few ulps of the total of |value*weight|", fmt.Sprintf("%v +- %v", want, tol), fmt.Sprint(sum))
	}
	// quantiles: inside [min, max] and otherwise the plain sketch's answer
	x.st.Oracle("quantile-clamped")
	qs := append([]float64(nil), snapGrid...)
	for _, q := range e.Q {
		if q >= 0 && q <= 1 {
			qs = append(qs, float64(q))
		}
	}
	for _, q := range qs {
		var got, plain float64
		var err, perr error
		x.lib("GetValueAtQuantile", sig, func() { got, err = s.GetValueAtQuantile(q) })
		x.lib("DDSketch.GetValueAtQuantile", sig, func() { plain, perr = s.DDSketch.GetValueAtQuantile(q) })
		if err != nil || perr != nil {
			x.fail("quantile-clamped", sig, fmt.Sprintf("GetValueAtQuantile(%v) of a non-empty sketch failed: %v / %v", q, err, perr), "a value", "error")
		}
		if !(got >= mn && got <= mx) {
			x.fail("quantile-clamped", sig, fmt.Sprintf("quantile %v lies outside the exact [min, max]", q), fmt.Sprintf("[%v, %v]", mn, mx), fmt.Sprint(got))
		}
		if !nd.tainted {
			want := plain
			if want < mn {
				want = mn
			}
			if want > mx {
				want = mx
			}
			if fbits(got) != fbits(want) && !(got == 0 && want == 0) {
				x.fail("quantile-clamped", sig, fmt.Sprintf("quantile %v is not the plain sketch's answer clamped to [min, max]", q), fmt.Sprint(want), fmt.Sprint(got))
			}
		}
	}
	x.st.ProbeIf(nd.tainted, "statistics-after-unit-change")
}

// ---- C14: pure queries, independent copies --------------------------------------------------------------

type hookC14 struct{ noHook }

func isFleetMutation(ev string) bool {
	switch ev {
	case "add", "addw", "merge", "clear", "reweight", "deliver":
		return true
	}
	return false
}

func (hookC14) before(x *fleetExec, e engine.Event, nd *knode) func() {
	sig := x.sigFor(e)
	var posts []func()
	// read-only events on nd: bracket with snapshots
	readOnly := e.Ev == "send" || e.Ev == "copy" || e.Ev == "chmap" || e.Ev == "query"
	if readOnly {
		before := x.snapSketch(nd.real, "before-"+e.Ev)
		posts = append(posts, func() {
			x.st.Oracle("single-read-pure")
			after := x.snapSketch(nd.real, "after-"+e.Ev)
			if d := before.diff(after, nd.tainted); d != "" {
				x.fail("single-read-pure", sig, "the read-only operation "+e.Ev+":"+e.S+" changed the sketch: "+d, before.String(), after.String())
			}
			if e.Ev == "copy" {
				if c := x.nodes[e.M]; c != nil && len(c.peers) > 0 {
					x.st.Oracle("copy-equals-original")
					cs := x.snapSketch(c.real, "copy")
					if d := before.diff(cs, nd.tainted); d != "" {
						x.fail("copy-equals-original", sig, "the copy answers differently from its original at the time of copying: "+d, before.String(), cs.String())
					}
				}
			}
		})
	}
	if e.Ev == "merge" {
		if src := x.nodes[e.M]; src != nil && src != nd {
			before := x.snapSketch(src.real, "merge-arg-before")
			posts = append(posts, func() {
				x.st.Oracle("single-read-pure")
				after := x.snapSketch(src.real, "merge-arg-after")
				if d := before.diff(after, src.tainted); d != "" {
					x.fail("single-read-pure", sig, "being the argument of MergeWith changed the sketch: "+d, before.String(), after.String())
				}
			})
		}
	}
	// mutations on one side of a copy must not show on the other side(s)
	if isFleetMutation(e.Ev) && len(nd.peers) > 0 {
		type pb struct {
			p *knode
			s *skSnap
		}
		var pbs []pb
		for _, pid := range nd.peers {
			if p := x.nodes[pid]; p != nil {
				pbs = append(pbs, pb{p, x.snapSketch(p.real, "peer-before")})
			}
		}
		posts = append(posts, func() {
			for _, b := range pbs {
				x.st.Oracle("copy-independent")
				after := x.snapSketch(b.p.real, "peer-after")
				if d := b.s.diff(after, b.p.tainted); d != "" {
					x.fail("copy-independent", sig, e.Ev+" on one side of a copy changed the other side: "+d, b.s.String(), after.String())
				}
			}
		})
	}
	if len(posts) == 0 {
		return nil
	}
	return func() {
		for _, p := range posts {
			p()
		}
	}
}

// query: the reads themselves (every kind of observer); only R is read.
func (hookC14) query(x *fleetExec, e engine.Event, nd *knode) {
	sig := x.sigFor(e)
	s := nd.real
	switch e.I % 6 {
	case 0:
		x.lib("GetValueAtQuantile", sig, func() {
			for _, q := range e.Q {
				v, _ := s.GetValueAtQuantile(float64(q))
				x.st.Note(fbits(v))
			}
		})
	case 1:
		qs := make([]float64, len(e.Q))
		for i, q := range e.Q {
			qs[i] = float64(q)
		}
		x.lib("GetValuesAtQuantiles", sig, func() { s.GetValuesAtQuantiles(qs) })
	case 2:
		x.lib("summaries", sig, func() {
			s.GetCount()
			s.GetSum()
			s.GetMinValue()
			s.GetMaxValue()
			s.IsEmpty()
			s.GetZeroCount()
		})
	case 3:
		x.lib("ForEach", sig, func() {
			n := 0
			s.ForEach(func(v, c float64) bool { n++; return n > int(e.I/6)%5 })
		})
	case 4:
		x.lib("stores", sig, func() {
			for _, st := range []interface {
				KeyAtRank(float64) int
				TotalCount() float64
			}{s.GetPositiveValueStore(), s.GetNegativeValueStore()} {
				st.KeyAtRank(st.TotalCount() / 2)
			}
			for range s.GetPositiveValueStore().Bins() {
			}
			for range s.GetNegativeValueStore().Bins() {
			}
		})
	default:
		x.lib("ToProto", sig, func() { plainOf(s).ToProto() })
	}
	x.st.Probe("reads-on-R")
}

func (hookC14) quiesce(x *fleetExec) {
	for _, id := range sortedNodeIDs(x) {
		nd := x.nodes[id]
		if nd.replica == nil {
			continue
		}
		sig := "quiesce/" + nd.spec.Role + "/" + nd.spec.Store
		x.st.Oracle("read-free-replica")
		r := x.snapSketch(nd.real, "R")
		q := x.snapSketch(nd.replica, "Q")
		x.st.Note(r.hash())
		if d := q.diff(r, nd.tainted); d != "" {
			x.fail("read-free-replica", sig, "a sketch that was read between mutations differs from a replica that was never read: "+d, "Q: "+q.String(), "R: "+r.String())
		}
	}
}

// ---- C15: cleared == new ----------------------------------------------------------------------------------

type hookC15 struct{ noHook }

// decay N : the owner ages node N away - two re-weightings by 2^-600 make every
// weight underflow to 0 - and will clear and re-use it. Until the clear the
// sketch is outside every model (dirty).
func (hookC15) event(x *fleetExec, e engine.Event) bool {
	if e.Ev != "decay" {
		return false
	}
	nd := x.nodes[e.N]
	if nd == nil || nd.dirty {
		return true
	}
	sig := "decay/" + nd.spec.Role + "/" + nd.spec.Store
	for k := 0; k < 2; k++ {
		nd.each(func(s sk) {
			x.lib("Reweight", sig, func() {
				if err := s.Reweight(math.Ldexp(1, -600)); err != nil {
					x.fail("accepts-valid", sig, "Reweight(2^-600) refused: "+err.Error(), "accepted", err.Error())
				}
			})
		})
	}
	nd.dirty = true
	x.st.Probe("weights-decayed-to-zero-before-clear")
	return true
}

func (hookC15) after(x *fleetExec, e engine.Event, nd *knode) {
	sig := x.sigFor(e)
	if e.Ev == "clear" {
		x.st.Oracle("empty-after-clear")
		sn := x.snapSketch(nd.real, "after-clear")
		if !sn.Empty || sn.Count != 0 || sn.Zero != 0 || !sn.MinErr || !sn.MaxErr || !sn.QuantErr || len(sn.Each) != 0 || !sn.Pos.Empty || !sn.Neg.Empty {
			x.fail("empty-after-clear", sig, "a cleared sketch is not empty", "empty, count 0, min/max/quantiles refuse, no bins", sn.String())
		}
	}
	if nd.twin != nil {
		x.st.Oracle("fresh-twin")
		a := x.snapSketch(nd.real, "cleared")
		b := x.snapSketch(nd.twin, "fresh")
		x.st.Note(a.hash())
		if d := b.diff(a, nd.tainted); d != "" {
			x.fail("fresh-twin", sig, "a cleared, re-used sketch differs from a fresh one after the same history: "+d, "fresh: "+b.String(), "cleared: "+a.String())
		}
		x.st.ProbeIf(!a.Empty, "twin-compared-non-empty")
	}
}

// decoded: a sketch decoded into cleared, re-used stores must equal one decoded into new stores.
func (hookC15) decoded(x *fleetExec, e engine.Event, nd *knode, m *kmsg, d sk, dm *refmodel.RefSketch) {
	if e.S != "reuse" || (m.form != "bin" && m.form != "binomit") {
		return
	}
	sig := x.sigFor(e)
	var fresh sk
	x.lib("Decode(fresh)", sig, func() {
		var err error
		if nd.exact() {
			fresh, err = ddsketch.DecodeDDSketchWithExactSummaryStatistics(append([]byte(nil), m.data...), providerFor(nd.spec.Store, nd.spec.N), nd.mapping)
		} else {
			fresh, err = ddsketch.DecodeDDSketch(append([]byte(nil), m.data...), providerFor(nd.spec.Store, nd.spec.N), nd.mapping)
		}
		if err != nil {
			x.fail("fresh-twin", sig, "decoding a valid encoding failed: "+err.Error(), "nil error", err.Error())
		}
	})
	x.st.Oracle("fresh-twin")
	a := x.snapSketch(d, "decoded-into-reused-stores")
	b := x.snapSketch(fresh, "decoded-into-new-stores")
	if diff := b.diff(a, m.tainted); diff != "" {
		x.fail("fresh-twin", sig, "decoding into cleared, re-used stores gives another sketch than decoding into new stores: "+diff, b.String(), a.String())
	}
}

// ---- C16: reweighting ----------------------------------------------------------------------------------------

type hookC16 struct{ noHook }

// hugeadd N V W : a weight far beyond the exactness budget (2^53 and more) enters node N; from then
// on only the bracket oracle of reweightDirty applies (whatever the sketch holds must scale), and Clear.
func (hookC16) event(x *fleetExec, e engine.Event) bool {
	if e.Ev != "hugeadd" {
		return false
	}
	nd := x.nodes[e.N]
	v, w := float64(e.V), float64(e.W)
	if nd == nil || nd.dirty || !trackable(nd.mapping, v) || !(w >= 0x1p53 && w <= 0x1p80) {
		return true
	}
	if nd.spec.Store == refmodel.Paginated {
		// beyond 2^53 a bin that is partly a page weight and partly unit entries is a rounded sum, and a
		// re-weighting regroups it: exact scaling is not a property of that store there (DESIGN 15.4-24)
		return true
	}
	side, idx := route(nd.mapping, v)
	if side != 0 && !x.spanOK(nd, side, idx, idx) {
		return true
	}
	sig := "hugeadd/" + nd.spec.Role + "/" + nd.spec.Store
	x.lib("AddWithCount", sig, func() {
		if err := nd.real.AddWithCount(v, w); err != nil {
			x.fail("accepts-valid", sig, "a valid value with a large weight was refused: "+err.Error(), "accepted", err.Error())
		}
	})
	nd.dirty, nd.twin = true, nil
	x.st.Probe("weight-beyond-2^53-added")
	return true
}

// c16Shadow builds the sketch "to which the same values had been added with their weights multiplied
// by w" from the absorbed multiset (whose weights the model has already scaled). It then receives
// every later event the reweighted sketch receives.
func c16Shadow(x *fleetExec, nd *knode, sig string) {
	nd.twin = nil
	m := nd.model
	if nd.tainted || nd.dirty || m.Lossy || m.Tainted || m.Folded() || len(m.Vals) > 3000 {
		return
	}
	sh := x.newSketch(&nd.spec, nd.mapping)
	for _, it := range m.Sorted(0) {
		if it.W <= 0 {
			continue
		}
		it := it
		x.lib("AddWithCount(shadow)", sig, func() {
			if err := sh.AddWithCount(it.V, it.W); err != nil {
				x.fail("accepts-valid", sig, "a value the sketch had accepted was refused with its scaled weight: "+err.Error(), "accepted", err.Error())
			}
		})
	}
	nd.twin = sh
	x.st.Probe("shadow-with-scaled-weights-built")
}

// c16Compare: the reweighted sketch and its shadow have received the same events since the reweighting.
func c16Compare(x *fleetExec, e engine.Event, nd *knode) {
	if nd.twin == nil {
		return
	}
	sig := x.sigFor(e)
	x.st.Oracle("as-if-added-scaled")
	a := x.snapSketch(nd.real, "reweighted")
	b := x.snapSketch(nd.twin, "added-with-scaled-weights")
	sa, sb, exact := a.Sum, b.Sum, a.SumExact
	a.SumExact, b.SumExact = false, false
	// which of -0 and +0 an extreme reports depends on the order of arrival; the shadow was fed in value order
	for _, sn := range []*skSnap{a, b} {
		sn.Min, sn.Max = sn.Min+0, sn.Max+0
		for i := range sn.Quant {
			sn.Quant[i] += 0
		}
		for i := range sn.Batch {
			sn.Batch[i] += 0
		}
	}
	if d := b.diff(a, false); d != "" {
		x.fail("as-if-added-scaled", sig, "a reweighted sketch differs from one to which the same values were added with scaled weights (same later history): "+d, "added scaled: "+b.String(), "reweighted: "+a.String())
	}
	if !exact {
		return
	}
	posAbs, negAbs, abs := 0.0, 0.0, 0.0
	for _, it := range nd.model.Sorted(0) {
		t := it.V * it.W
		abs += math.Abs(t)
		if t > 0 {
			posAbs += t
		} else {
			negAbs -= t
		}
	}
	if !(posAbs < 1e300) {
		nd.model.PosOver = true
	}
	if !(negAbs < 1e300) {
		nd.model.NegOver = true
	}
	if nd.model.PosOver && nd.model.NegOver {
		return // both infinities were within reach: the result depends on the order of additions
	}
	if nd.model.PosOver || nd.model.NegOver {
		// one infinity within reach: a finite value, or that infinity, on both sides - never NaN
		if math.IsNaN(sa) != math.IsNaN(sb) {
			x.fail("as-if-added-scaled", sig, "the exact sum of the reweighted sketch and of the one built with scaled weights differ in being NaN", fmt.Sprint(sb), fmt.Sprint(sa))
		}
		return
	}
	if math.Abs(sa-sb) > 64*0x1p-53*abs+1e-290 || math.IsNaN(sa) != math.IsNaN(sb) {
		x.fail("as-if-added-scaled", sig, "the exact sums of the reweighted sketch and of the one built with scaled weights differ by more than a few ulps of the total of |value*weight|", fmt.Sprint(sb), fmt.Sprint(sa))
	}
}

func (hookC16) after(x *fleetExec, e engine.Event, nd *knode) {
	if e.Ev == "clear" {
		nd.twin = nil
		return
	}
	if e.Ev != "reweight" {
		c16Compare(x, e, nd)
	}
}

func (hookC16) before(x *fleetExec, e engine.Event, nd *knode) func() {
	if e.Ev != "reweight" {
		return nil
	}
	w := float64(e.W)
	sig := x.sigFor(e)
	before := x.snapSketch(nd.real, "reweight-before")
	modelCount := nd.model.Count()
	return func() {
		if nd.model.Count() == modelCount && w != 1 && modelCount != 0 {
			return // the executor skipped the event (budget)
		}
		after := x.snapSketch(nd.real, "reweight-after")
		x.st.Note(after.hash())
		if w == 1 {
			x.st.Oracle("unit-factor-noop")
			if d := before.diff(after, nd.tainted); d != "" {
				x.fail("unit-factor-noop", sig, "Reweight(1) changed the sketch: "+d, before.String(), after.String())
			}
			return
		}
		x.st.Oracle("bins-scaled")
		for name, pair := range map[string][2]*storeSnap{"positive": {before.Pos, after.Pos}, "negative": {before.Neg, after.Neg}} {
			b, a := pair[0], pair[1]
			if len(b.Bins) != len(a.Bins) {
				x.st.Oracle("support-unchanged")
				x.fail("support-unchanged", sig, "Reweight made a bin appear or disappear on the "+name+" side", refmodel.BinsString(b.Bins), refmodel.BinsString(a.Bins))
			}
			for i := range b.Bins {
				if b.Bins[i].Index != a.Bins[i].Index {
					x.fail("support-unchanged", sig, "Reweight changed the set of non-empty indexes on the "+name+" side", refmodel.BinsString(b.Bins), refmodel.BinsString(a.Bins))
				}
				if a.Bins[i].Count != b.Bins[i].Count*w {
					x.fail("bins-scaled", sig, fmt.Sprintf("%s bin %d: weight %v did not become %v", name, b.Bins[i].Index, b.Bins[i].Count, b.Bins[i].Count*w), fmt.Sprint(b.Bins[i].Count*w), fmt.Sprint(a.Bins[i].Count))
				}
			}
			if a.Total != b.Total*w {
				x.fail("bins-scaled", sig, "total weight of the "+name+" side did not scale by the factor", fmt.Sprint(b.Total*w), fmt.Sprint(a.Total))
			}
			x.st.ProbeIf(len(b.Bins) > 0, "reweighted-"+name+"-side")
		}
		x.st.Oracle("support-unchanged")
		x.st.Oracle("zero-and-count-scaled")
		if after.Zero != before.Zero*w || after.Count != before.Count*w {
			x.fail("zero-and-count-scaled", sig, "zero weight or count did not scale by the factor", fmt.Sprintf("zero=%v count=%v", before.Zero*w, before.Count*w), fmt.Sprintf("zero=%v count=%v", after.Zero, after.Count))
		}
		if after.Empty != before.Empty {
			x.fail("zero-and-count-scaled", sig, "emptiness changed", fmt.Sprint(before.Empty), fmt.Sprint(after.Empty))
		}
		if nd.exact() {
			x.st.Oracle("stats-scaled")
			if fbits(after.Min) != fbits(before.Min) || fbits(after.Max) != fbits(before.Max) {
				x.fail("stats-scaled", sig, "exact minimum/maximum changed", fmt.Sprint(before.Min, before.Max), fmt.Sprint(after.Min, after.Max))
			}
			// w is a power of two: the exact sum scales exactly unless it underflows
			if after.Sum != before.Sum*w && math.Abs(before.Sum*w) > 1e-300 {
				x.fail("stats-scaled", sig, "the exact sum did not scale by the factor", fmt.Sprint(before.Sum*w), fmt.Sprint(after.Sum))
			}
		} else {
			// quantile answers depend on ranks q*(W-1), which do not scale; extremes must not move
			if fbits(after.Min) != fbits(before.Min) || fbits(after.Max) != fbits(before.Max) {
				x.fail("support-unchanged", sig, "reported minimum/maximum changed", fmt.Sprint(before.Min, before.Max), fmt.Sprint(after.Min, after.Max))
			}
		}
		x.st.ProbeIf(w < 1, "factor-below-one")
		x.st.ProbeIf(w > 1, "factor-above-one")
		c16Shadow(x, nd, sig)
		c16Compare(x, e, nd)
		if l, ok := inspect(nd.real.GetPositiveValueStore()); ok && l.Kind == "paginated" {
			x.st.ProbeIf(l.AllocatedPages > 0, "paginated-reweighted-with-pages")
		}
	}
}

func init() {
	fleetHooks["C02"] = func() fleetHook { return hookC02{} }
	fleetHooks["C10"] = func() fleetHook { return hookC10{} }
	fleetHooks["C14"] = func() fleetHook { return hookC14{} }
	fleetHooks["C15"] = func() fleetHook { return hookC15{} }
	fleetHooks["C16"] = func() fleetHook { return hookC16{} }
}
