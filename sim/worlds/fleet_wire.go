package worlds

import (
	"encoding/hex"
	"fmt"
	"math"
	"sort"

	"github.com/DataDog/sketches-go/ddsketch"
	"github.com/DataDog/sketches-go/ddsketch/mapping"

	"verif/sim/engine"
	"verif/sim/refmodel"
)

func mappingOf(s sk) mapping.IndexMapping {
	if p := plainOf(s); p != nil {
		return p.IndexMapping
	}
	return nil
}

// ---- C06: binary round trip, decode-is-merge, concatenation, append-only -----------------

type hookC06 struct{ noHook }

func (hookC06) decoded(x *fleetExec, e engine.Event, nd *knode, m *kmsg, d sk, dm *refmodel.RefSketch) {
	sig := x.sigFor(e) + "/from-" + m.spec.Store
	x.st.Oracle("roundtrip-mapping")
	dmap := mappingOf(d)
	var eq1, eq2 bool
	x.lib("Equals", sig, func() {
		eq1 = dmap != nil && dmap.Equals(nd.mapping)
		eq2 = dmap != nil && nd.mapping.Equals(dmap)
	})
	if !eq1 || !eq2 {
		x.fail("roundtrip-mapping", sig, "the decoded sketch does not carry the source's mapping", mapKey(&m.spec), fmt.Sprintf("%v", dmap))
	}
	oracle := "roundtrip-content"
	if m.parts > 1 {
		oracle = "concat-is-merge"
	}
	x.compareContent(d, dm, oracle, sig, fmt.Sprintf("decoding %d concatenated encoding(s) into a %s store", m.parts, nd.spec.Store))
	// hence the same answers to every query (when nothing is folded by the target and the message is one encoding)
	if m.parts == 1 && m.snap != nil && !dm.Folded() && m.exact == nd.exact() && m.deliveriesSnapOK() {
		x.st.Oracle("roundtrip-queries")
		ds := x.snapSketch(d, "decoded")
		if diff := m.snap.diff(ds, false); diff != "" {
			x.fail("roundtrip-queries", sig, "the decoded sketch answers differently from the encoded one: "+diff, m.snap.String(), ds.String())
		}
	}
	x.st.ProbeIf(dm.Folded(), "decoded-into-bounded-target-with-folding")
	x.st.ProbeIf(!m.hasMapping, "decoded-with-supplied-mapping")
}

func (m *kmsg) deliveriesSnapOK() bool { return true }

func (hookC06) after(x *fleetExec, e engine.Event, nd *knode) {
	if e.Ev != "deliver" {
		return
	}
	sig := x.sigFor(e)
	oracle := "decode-is-merge"
	x.compareContent(nd.real, nd.model, oracle, sig, "after decoding into a live sketch ("+e.S+")")
}

func (hookC06) quiesce(x *fleetExec) {
	for _, id := range sortedNodeIDs(x) {
		nd := x.nodes[id]
		x.compareContent(nd.real, nd.model, "decode-is-merge", "quiesce/"+nd.spec.Role+"/"+nd.spec.Store, "at quiescence")
	}
}

// ---- C07: the wire format matches its documentation ----------------------------------------

type hookC07 struct{ noHook }

// contentFromDoc builds a reference sketch from documented content; the
// absorbed values are unknown, so only bin-level oracles apply (Lossy).
func contentFromDoc(c *refmodel.DocContent, kind string, n int) *refmodel.RefSketch {
	m := refmodel.NewRefSketch(kind, n)
	for idx, w := range c.Pos {
		m.Pos.Add(idx, w)
	}
	for idx, w := range c.Neg {
		m.Neg.Add(idx, w)
	}
	m.Zero = c.Zero
	m.Lossy = true
	m.NonUnit = true
	return m
}

func binsOfMap(m map[int]float64) []refmodel.RefBin {
	keys := make([]int, 0, len(m))
	for k := range m {
		keys = append(keys, k)
	}
	sort.Ints(keys)
	out := make([]refmodel.RefBin, 0, len(keys))
	for _, k := range keys {
		if m[k] != 0 {
			out = append(out, refmodel.RefBin{Index: k, Count: m[k]})
		}
	}
	return out
}

func (hookC07) sent(x *fleetExec, e engine.Event, nd *knode, m *kmsg) {
	if m.form != "bin" && m.form != "binomit" {
		return
	}
	sig := x.sigFor(e)
	x.st.Oracle("doc-decodes-impl")
	blocks, err := refmodel.DocParse(m.data)
	if err != nil {
		x.fail("doc-decodes-impl", sig, "an encoding produced by the implementation is not a sequence of documented blocks: "+err.Error(), "flagged blocks as documented in flag.go", hex.EncodeToString(m.data))
	}
	c := refmodel.NewDocContent()
	c.Apply(blocks)
	if d := refmodel.DiffBins(m.model.Pos.Bins(), binsOfMap(c.Pos)); d != "" {
		x.fail("doc-decodes-impl", sig, "the documentation decoder reads other positive bins than the sketch holds: "+d, refmodel.BinsString(m.model.Pos.Bins()), refmodel.BinsString(binsOfMap(c.Pos)))
	}
	if d := refmodel.DiffBins(m.model.Neg.Bins(), binsOfMap(c.Neg)); d != "" {
		x.fail("doc-decodes-impl", sig, "the documentation decoder reads other negative bins than the sketch holds: "+d, refmodel.BinsString(m.model.Neg.Bins()), refmodel.BinsString(binsOfMap(c.Neg)))
	}
	if c.Zero != m.model.Zero {
		x.fail("doc-decodes-impl", sig, "the documentation decoder reads another zero weight", fmt.Sprint(m.model.Zero), fmt.Sprint(c.Zero))
	}
	if m.form == "bin" {
		pb := nd.mapping.ToProto()
		if !c.HasMapping || c.MapKind != nd.spec.Map || fbits(c.Gamma) != fbits(pb.Gamma) || fbits(c.Offset) != fbits(pb.IndexOffset) {
			x.fail("doc-decodes-impl", sig, "the mapping block does not carry the sketch's mapping (kind, base, offset) bit for bit",
				fmt.Sprintf("%s gamma=%v offset=%v", nd.spec.Map, pb.Gamma, pb.IndexOffset), fmt.Sprintf("present=%v %s gamma=%v offset=%v", c.HasMapping, c.MapKind, c.Gamma, c.Offset))
		}
	} else if c.HasMapping {
		x.fail("doc-decodes-impl", sig, "an encoding made with omitIndexMapping carries a mapping block", "no mapping block", "mapping block")
	}
	if m.exact && !m.model.IsEmpty() {
		lo, hi, _ := m.model.TrueMinMax()
		if !c.HasStats || c.Count != m.model.Count() || c.Min != lo || c.Max != hi {
			x.fail("doc-decodes-impl", sig, "the statistics blocks do not carry the exact count, minimum and maximum",
				fmt.Sprintf("count=%v min=%v max=%v", m.model.Count(), lo, hi), fmt.Sprintf("present=%v count=%v min=%v max=%v", c.HasStats, c.Count, c.Min, c.Max))
		}
	}
	for _, b := range blocks {
		if b.Type == refmodel.DocTypePositive || b.Type == refmodel.DocTypeNegative {
			x.st.Probe(fmt.Sprintf("impl-layout-%d", b.Sub))
		}
	}
}

// foreign J S B : message J := the grammar-generated stream B (hex) from the foreign node.
// blockperm J I L : message J := blocks of message I re-ordered / repeated as listed in L.
func (hookC07) event(x *fleetExec, e engine.Event) bool {
	switch e.Ev {
	case "foreign":
		id := int(e.J)
		spec := x.plan.NodeByID(e.N)
		if id <= 0 || x.msgs[id] != nil || spec == nil {
			return true
		}
		data, err := hex.DecodeString(e.B)
		if err != nil {
			return true
		}
		m := x.messageFromBytes(data, *spec)
		if m == nil {
			return true
		}
		m.form = "foreign"
		x.msgs[id] = m
		x.st.Probe("foreign-stream")
		return true
	case "blockperm":
		id := int(e.J)
		src := x.msgs[int(e.I)]
		if id <= 0 || x.msgs[id] != nil || src == nil || (src.form != "bin" && src.form != "binomit" && src.form != "foreign") || len(e.L) == 0 {
			return true
		}
		blocks, err := refmodel.DocParse(src.data)
		if err != nil || len(blocks) == 0 {
			return true
		}
		var data []byte
		for _, k := range e.L {
			b := blocks[int(((k%int64(len(blocks)))+int64(len(blocks)))%int64(len(blocks)))]
			data = append(data, src.data[b.Start:b.End]...)
		}
		m := x.messageFromBytes(data, src.spec)
		if m == nil {
			return true
		}
		m.form = "foreign"
		m.exact = false // statistics blocks, if any, no longer describe the content; plain receivers ignore them
		x.msgs[id] = m
		x.st.Fault("blocks-reordered-or-repeated")
		return true
	}
	return false
}

// messageFromBytes gives a byte stream the meaning the documentation assigns to it.
func (x *fleetExec) messageFromBytes(data []byte, spec engine.Node) *kmsg {
	blocks, err := refmodel.DocParse(data)
	if err != nil {
		return nil
	}
	c := refmodel.NewDocContent()
	c.Apply(blocks)
	model := contentFromDoc(c, refmodel.Sparse, 0)
	// stay inside the exactness budget
	for _, w := range c.Pos {
		if _, ok := refmodel.GranOf(w); !ok {
			return nil
		}
	}
	for _, w := range c.Neg {
		if _, ok := refmodel.GranOf(w); !ok {
			return nil
		}
	}
	if _, ok := refmodel.GranOf(c.Zero); !ok {
		return nil
	}
	// ... as sums of the individual weights of the stream (repeated indexes and blocks add up): the
	// granule is that of the finest single weight, not of the rounded sums
	total := c.Zero
	for _, w := range c.Pos {
		total += w
	}
	for _, w := range c.Neg {
		total += w
	}
	if c.NotDyadic || c.MinGran < -45 || (total+1)*math.Ldexp(1, -c.MinGran) >= math.Ldexp(1, refmodel.BudgetBits) {
		return nil
	}
	if c.MinGran < model.Pos.Gran {
		model.Pos.Gran = c.MinGran
	}
	for _, b := range blocks {
		if b.Type == refmodel.DocTypePositive || b.Type == refmodel.DocTypeNegative {
			x.st.Probe(fmt.Sprintf("doc-layout-%d", b.Sub))
			for i := 1; i < len(b.Indexes); i++ {
				d := b.Indexes[i] - b.Indexes[i-1]
				x.st.ProbeIf(d < 0, "doc-negative-stride")
				x.st.ProbeIf(d == 0, "doc-zero-stride-or-repeated-index")
			}
		}
	}
	return &kmsg{form: "foreign", data: data, model: model, spec: spec, mkey: mapKey(&spec), sentAt: x.at, parts: 1, hasMapping: c.HasMapping}
}

func (hookC07) decoded(x *fleetExec, e engine.Event, nd *knode, m *kmsg, d sk, dm *refmodel.RefSketch) {
	sig := x.sigFor(e)
	oracle := "impl-decodes-doc"
	if m.form != "foreign" {
		oracle = "impl-decodes-impl"
		if m.exact && !nd.exact() {
			oracle = "plain-accepts-exact"
		}
	}
	x.compareContent(d, dm, oracle, sig, "decoding a "+m.form+" stream into a "+nd.spec.Store+" store")
}

func (hookC07) after(x *fleetExec, e engine.Event, nd *knode) {
	if e.Ev != "deliver" {
		return
	}
	m := x.msgs[int(e.J)]
	oracle := "impl-decodes-doc"
	if m != nil && m.form != "foreign" {
		oracle = "impl-decodes-impl"
		if m.exact && !nd.exact() {
			oracle = "plain-accepts-exact"
		}
	}
	x.compareContent(nd.real, nd.model, oracle, x.sigFor(e), "after decoding into a live sketch ("+e.S+")")
}

// ---- C08: malformed and truncated encodings ---------------------------------------------------

type hookC08 struct{ noHook }

// sweep N J : for message J and a receiver shaped like node N, enumerate every
// truncation point and every undefined flag at every block boundary.
// mismatch N J : deliver message J to node N, whose mapping differs: must be refused.
func (hookC08) event(x *fleetExec, e engine.Event) bool {
	switch e.Ev {
	case "sweep":
		c08Sweep(x, e)
		return true
	case "mismatch":
		c08Mismatch(x, e)
		return true
	case "checkpoint", "diskfault", "crash", "restart":
		return x.c08Disk(e)
	}
	return false
}

// decodeTarget builds a throw-away receiver: fresh (optionally with the mapping
// supplied) or a copy of the node's live sketch.
type c08Mode int

const (
	c08FreshNil c08Mode = iota
	c08FreshSupplied
	c08IntoCopy
)

func (x *fleetExec) c08Decode(nd *knode, data []byte, mode c08Mode, sig string) (d sk, err error) {
	prov := providerFor(nd.spec.Store, nd.spec.N)
	buf := append([]byte(nil), data...)
	switch mode {
	case c08FreshNil, c08FreshSupplied:
		var im mapping.IndexMapping
		if mode == c08FreshSupplied {
			im = nd.mapping
		}
		x.lib("Decode", sig, func() {
			if nd.exact() {
				d, err = ddsketch.DecodeDDSketchWithExactSummaryStatistics(buf, prov, im)
			} else {
				d, err = ddsketch.DecodeDDSketch(buf, prov, im)
			}
		})
	case c08IntoCopy:
		x.lib("Copy", sig, func() { d = copySk(nd.real) })
		x.lib("DecodeAndMergeWith", sig, func() { err = d.DecodeAndMergeWith(buf) })
	}
	return d, err
}

func c08Sweep(x *fleetExec, e engine.Event) {
	nd := x.nodes[e.N]
	m := x.msgs[int(e.J)]
	if nd == nil || m == nil || (m.form != "bin" && m.form != "binomit") || m.mkey != nd.mkey {
		return
	}
	if nd.exact() && !m.exact {
		return // documented: the exact decoder cannot take a plain encoding
	}
	if !x.mergeFits(nd.model, m.model) || len(m.data) > 4096 {
		return
	}
	sig := fmt.Sprintf("sweep/%s/%s/from-%s", nd.spec.Role, nd.spec.Store, m.spec.Store)
	blocks, err := refmodel.DocParse(m.data)
	if err != nil {
		x.fail("valid-encoding-parses", sig, "an encoding produced by the implementation is not a sequence of documented blocks: "+err.Error(), "documented blocks", hex.EncodeToString(m.data))
	}
	boundary := map[int]int{0: 0} // offset -> number of complete blocks before it
	for i, b := range blocks {
		boundary[b.End] = i + 1
	}
	modes := []c08Mode{c08FreshNil, c08FreshSupplied, c08IntoCopy}
	cuts := 0
	for k := 0; k <= len(m.data); k++ {
		prefix := m.data[:k]
		nb, onBoundary := boundary[k]
		for _, mode := range modes {
			d, derr := x.c08Decode(nd, prefix, mode, sig)
			cuts++
			if !onBoundary {
				x.st.Oracle("inside-block-must-error")
				if derr == nil {
					x.fail("inside-block-must-error", fmt.Sprintf("%s/mode%d", sig, mode), fmt.Sprintf("an encoding of %d bytes cut at byte %d, strictly inside a block, was decoded without error", len(m.data), k),
						"an error", "nil (input "+hex.EncodeToString(prefix)+")")
				}
				continue
			}
			// exactly between blocks: the content of the complete blocks
			c := refmodel.NewDocContent()
			c.Apply(blocks[:nb])
			hasMapping := c.HasMapping || mode != c08FreshNil
			if !hasMapping {
				x.st.Oracle("boundary-missing-mapping")
				if derr == nil {
					x.fail("boundary-missing-mapping", fmt.Sprintf("%s/mode%d", sig, mode), fmt.Sprintf("a stream without mapping block (cut at %d of %d) was decoded without a supplied mapping and without error", k, len(m.data)), "an error", "nil")
				}
				continue
			}
			x.st.Oracle("boundary-content")
			if derr != nil {
				if nd.exact() && c.Count == 0 && (len(c.Pos) > 0 || len(c.Neg) > 0 || c.Zero != 0) && mode != c08IntoCopy {
					continue // documented: the exact decoder needs the statistics blocks
				}
				x.fail("boundary-content", fmt.Sprintf("%s/mode%d", sig, mode), fmt.Sprintf("an encoding cut exactly between blocks (at %d of %d, %d complete blocks) was refused: %v", k, len(m.data), nb, derr), "content of the complete blocks", derr.Error())
			}
			want := contentFromDoc(c, nd.spec.Store, nd.spec.N)
			if mode == c08IntoCopy {
				base := nd.model.Clone()
				base.MergeFrom(contentFromDoc(c, refmodel.Sparse, 0))
				want = base
			}
			x.compareContentNamed(d, want, "boundary-content", fmt.Sprintf("%s/mode%d", sig, mode), fmt.Sprintf("prefix of %d complete blocks (cut at %d of %d)", nb, k, len(m.data)), !nd.exact())
		}
	}
	x.st.Probes["cuts-enumerated"] += cuts
	// every undefined flag at every block boundary
	subs := 0
	for _, b := range blocks {
		for f := 0; f < 256; f++ {
			if refmodel.DocDefinedFlag(byte(f)) {
				continue
			}
			data := append([]byte(nil), m.data...)
			data[b.Start] = byte(f)
			for _, mode := range []c08Mode{c08FreshSupplied, c08IntoCopy} {
				_, derr := x.c08Decode(nd, data, mode, sig)
				subs++
				x.st.Oracle("undefined-flag")
				if derr == nil {
					x.fail("undefined-flag", fmt.Sprintf("%s/mode%d/type%d", sig, mode, f&3), fmt.Sprintf("a stream whose block flag at offset %d was replaced by the undefined flag %#x was decoded without error", b.Start, f), "an error", "nil")
				}
			}
		}
	}
	x.st.Probes["flag-substitutions-enumerated"] += subs
	x.st.Fault("truncation-sweep")
	x.st.Fault("flag-substitution-sweep")
	x.st.Probe("messages-swept")
	x.st.Probe(fmt.Sprintf("swept-blocks-%d", minInt(len(blocks), 6)))
}

func minInt(a, b int) int {
	if a < b {
		return a
	}
	return b
}

// compareContentNamed is compareContent with control over the count check
// (for the exact variant the count is a statistic, checked separately).
func (x *fleetExec) compareContentNamed(s sk, m *refmodel.RefSketch, oracle, sig, what string, checkCount bool) {
	pos := x.snapStore(s.GetPositiveValueStore(), "content/pos")
	neg := x.snapStore(s.GetNegativeValueStore(), "content/neg")
	if d := refmodel.DiffBins(m.Pos.Bins(), pos.Bins); d != "" {
		x.fail(oracle, sig, what+": reported success but positive bins differ from the complete blocks: "+d, refmodel.BinsString(m.Pos.Bins()), refmodel.BinsString(pos.Bins))
	}
	if d := refmodel.DiffBins(m.Neg.Bins(), neg.Bins); d != "" {
		x.fail(oracle, sig, what+": reported success but negative bins differ from the complete blocks: "+d, refmodel.BinsString(m.Neg.Bins()), refmodel.BinsString(neg.Bins))
	}
	var zero, count float64
	x.lib("GetZeroCount", sig, func() { zero = s.GetZeroCount() })
	if zero != m.Zero {
		x.fail(oracle, sig, what+": reported success but the zero weight differs", fmt.Sprint(m.Zero), fmt.Sprint(zero))
	}
	if checkCount {
		x.lib("GetCount", sig, func() { count = s.GetCount() })
		if count != m.Count() {
			x.fail(oracle, sig, what+": reported success but the count differs", fmt.Sprint(m.Count()), fmt.Sprint(count))
		}
	}
}

func c08Mismatch(x *fleetExec, e engine.Event) {
	nd := x.nodes[e.N]
	m := x.msgs[int(e.J)]
	if nd == nil || m == nil || m.form != "bin" || m.mkey == nd.mkey || nd.exact() != m.exact {
		return
	}
	// different kind, clearly different accuracy, or same base with another index offset
	if diff, ok := clearlyDifferent(&m.spec, &nd.spec, true); !ok || !diff {
		return
	}
	sig := "mismatch/" + nd.spec.Role + "/" + nd.spec.Store
	x.st.ProbeIf(m.spec.Map == nd.spec.Map && m.spec.ByGam && nd.spec.ByGam, "mismatch-in-offset-only")
	x.st.Oracle("mapping-mismatch")
	for _, mode := range []c08Mode{c08FreshSupplied, c08IntoCopy} {
		_, derr := x.c08Decode(nd, m.data, mode, sig)
		if derr == nil {
			x.fail("mapping-mismatch", sig, "a stream whose mapping differs from the receiver's was decoded without error", "an error", "nil")
		}
	}
	// a stream of two frames whose mapping blocks differ, decoded by a receiver that has no mapping yet:
	// it adopts the first block's mapping, the second block then differs from the receiver's
	if !nd.dirty {
		var own []byte
		x.lib("Encode", sig, func() { nd.real.Encode(&own, false) })
		streams := [][]byte{append(append([]byte(nil), own...), m.data...)}
		// the other order lets the foreign frame's bins into a store of this node's kind before the refusal
		fits := true
		for _, side := range []*refmodel.RefStore{m.model.Pos, m.model.Neg} {
			if b := side.Bins(); len(b) > 0 && b[len(b)-1].Index-b[0].Index+1 >= spanBudget(nd.spec.Store) {
				fits = false
			}
		}
		if fits {
			streams = append(streams, append(append([]byte(nil), m.data...), own...))
		}
		for k, data := range streams {
			_, derr := x.c08Decode(nd, data, c08FreshNil, sig)
			if derr == nil {
				x.fail("mapping-mismatch", sig, fmt.Sprintf("a stream holding two different mapping blocks (order %d) was decoded without error by a receiver without a mapping", k), "an error", "nil")
			}
		}
		x.st.Fault("two-mapping-blocks-that-differ")
	}
	x.st.Fault("wrong-mapping")
}

func init() {
	fleetHooks["C06"] = func() fleetHook { return hookC06{} }
	fleetHooks["C07"] = func() fleetHook { return hookC07{} }
	fleetHooks["C08"] = func() fleetHook { return hookC08{} }
}

// ---- C08 in context: checkpoints on a faulty disk, crash and restart ------------------------------
//
//	checkpoint N     encode node N (with its mapping) to the simulated disk
//	diskfault N I S  damage N's newest checkpoint: S = torn (keep only the first I mod len bytes) | lost
//	crash N          only durable state survives: the in-memory sketch is discarded
//	restart N        restore from the newest checkpoint that decodes; a torn checkpoint must be
//	                 *reported* (skipped), or - when the tear falls between blocks - restore exactly
//	                 the complete blocks

type checkpoint struct {
	data  []byte
	model *refmodel.RefSketch
	torn  bool
}

func (x *fleetExec) c08Disk(e engine.Event) bool {
	nd := x.nodes[e.N]
	if nd == nil {
		return true
	}
	if x.disk == nil {
		x.disk = map[int][]*checkpoint{}
	}
	sig := e.Ev + "/" + nd.spec.Role + "/" + nd.spec.Store
	switch e.Ev {
	case "checkpoint":
		var buf []byte
		x.lib("Encode", sig, func() { nd.real.Encode(&buf, false) })
		x.disk[e.N] = append(x.disk[e.N], &checkpoint{data: buf, model: nd.model.Clone()})
		if len(x.disk[e.N]) > 4 {
			x.disk[e.N] = x.disk[e.N][1:]
		}
		x.st.Probe("checkpoint-written")
	case "diskfault":
		cps := x.disk[e.N]
		if len(cps) == 0 {
			return true
		}
		last := cps[len(cps)-1]
		if e.S == "lost" {
			x.disk[e.N] = cps[:len(cps)-1]
			x.st.Fault("lost-write")
		} else if len(last.data) > 0 {
			k := int(((e.I % int64(len(last.data))) + int64(len(last.data))) % int64(len(last.data)))
			last.data = last.data[:k]
			last.torn = true
			x.st.Fault("torn-write")
		}
	case "crash":
		nd.real = x.newSketch(&nd.spec, nd.mapping)
		nd.model.Clear()
		nd.tainted = false
		nd.twin, nd.replica = nil, nil
		x.st.Fault("crash")
	case "restart":
		cps := x.disk[e.N]
		restored := false
		for i := len(cps) - 1; i >= 0 && !restored; i-- {
			cp := cps[i]
			blocks, perr := refmodel.DocParse(cp.data)
			c := refmodel.NewDocContent()
			c.Apply(blocks)
			var d sk
			var derr error
			x.lib("Decode", sig, func() {
				if nd.exact() {
					d, derr = ddsketch.DecodeDDSketchWithExactSummaryStatistics(append([]byte(nil), cp.data...), providerFor(nd.spec.Store, nd.spec.N), nil)
				} else {
					d, derr = ddsketch.DecodeDDSketch(append([]byte(nil), cp.data...), providerFor(nd.spec.Store, nd.spec.N), nil)
				}
			})
			x.st.Oracle("torn-checkpoint-skipped")
			switch {
			case perr != nil: // torn inside a block
				if derr == nil {
					x.fail("torn-checkpoint-skipped", sig, fmt.Sprintf("a checkpoint torn inside a block (%d bytes left) was restored as if it were complete", len(cp.data)), "an error, so that the previous checkpoint is used", "nil")
				}
				x.st.Probe("torn-checkpoint-skipped")
				continue
			case !c.HasMapping:
				if derr == nil {
					x.fail("torn-checkpoint-skipped", sig, "a checkpoint torn before its mapping block was restored without a mapping", "an error", "nil")
				}
				continue
			}
			if derr != nil {
				if nd.exact() && c.Count == 0 {
					continue // documented: the exact decoder needs the statistics blocks
				}
				x.fail("boundary-content", sig, fmt.Sprintf("an intact checkpoint (or one torn exactly between blocks) could not be restored: %v", derr), "restored", derr.Error())
			}
			want := cp.model.CloneAs(nd.spec.Store, nd.spec.N)
			if cp.torn {
				want = contentFromDoc(c, nd.spec.Store, nd.spec.N)
			}
			// after a restore from a checkpoint torn between blocks the exact count (a statistics block)
			// and the bins describe different prefixes; the count is then not comparable any more
			x.compareContentNamed(d, want, "success-implies-complete-blocks", sig, "restored checkpoint", !nd.exact() || (!cp.torn && !cp.model.Lossy))
			nd.real, nd.model = d, want
			if cp.torn {
				nd.model.Lossy = true
			}
			restored = true
			x.st.ProbeIf(cp.torn, "restored-from-checkpoint-torn-between-blocks")
			x.st.ProbeIf(!cp.torn && i < len(cps)-1, "fell-back-to-older-checkpoint")
			x.st.ProbeIf(!cp.torn && i == len(cps)-1, "restored-newest-checkpoint")
		}
		if !restored {
			nd.real = x.newSketch(&nd.spec, nd.mapping)
			nd.model.Clear()
			x.st.Probe("restart-with-no-usable-checkpoint")
		}
	default:
		return false
	}
	return true
}
