package worlds

import (
	"encoding/hex"
	"fmt"
	"io"
	"math"

	enc "github.com/DataDog/sketches-go/ddsketch/encoding"

	"verif/sim/engine"
	"verif/sim/refmodel"
)

// W-codec, the "record stream": a writer appends typed primitive records to one
// buffer from the pool, a reader decodes them in order; the stream is then cut
// at EVERY byte (a crash in the middle of a write), arbitrary bytes are
// appended after records, bytes are damaged, and arbitrary byte strings are fed
// to every decoder.
//
// Events:
//
//	rec   S I V   append one record; S = uvarint | varint | varfloat | f64 | flag ; integers in I (uvarint: the bits of I), floats in V
//	bytes B       feed the byte string B (hex) to every decoder
//	exhaust       feed every byte string of length <= 2 to every decoder

type crec struct {
	kind  string
	u     uint64
	i     int64
	f     float64
	start int
	end   int
}

type codecExec struct {
	xctx
	buf  []byte
	pre  int
	recs []crec
}

func ExecCodecWorld(p *engine.Plan, st *engine.Stats) *engine.Violation {
	x := &codecExec{xctx: xctx{prop: p.Property, plan: p, st: st}}
	x.pre = p.CfgInt("prefix", 0)
	if x.pre < 0 || x.pre > 64 {
		x.pre = 0
	}
	x.buf = make([]byte, x.pre, x.pre+p.CfgInt("spare", 0)%256)
	for i := range x.buf {
		x.buf[i] = 0x5A
	}
	return x.run(func() {
		for i, e := range p.Events {
			x.at = i
			switch e.Ev {
			case "rec":
				x.write(e)
			case "bytes":
				if b, err := hex.DecodeString(e.B); err == nil && len(b) <= 64 {
					x.feed(b, "bytes")
					x.st.Probe("arbitrary-byte-strings")
				}
			case "exhaust":
				x.exhaust()
			}
		}
		x.at = len(p.Events) - 1
		x.readAll()
	})
}

func (x *codecExec) write(e engine.Event) {
	r := crec{kind: e.S, start: len(x.buf)}
	sig := "write/" + e.S
	var doc []byte
	size := -1
	switch e.S {
	case "uvarint":
		r.u = uint64(e.I)
		x.lib("EncodeUvarint64", sig, func() { enc.EncodeUvarint64(&x.buf, r.u) })
		x.lib("Uvarint64Size", sig, func() { size = enc.Uvarint64Size(r.u) })
		doc = refmodel.DocPutUvarint(r.u)
	case "varint":
		r.i = e.I
		x.lib("EncodeVarint64", sig, func() { enc.EncodeVarint64(&x.buf, r.i) })
		x.lib("Varint64Size", sig, func() { size = enc.Varint64Size(r.i) })
		doc = refmodel.DocPutVarint(r.i)
	case "varfloat":
		r.f = float64(e.V)
		x.lib("EncodeVarfloat64", sig, func() { enc.EncodeVarfloat64(&x.buf, r.f) })
		x.lib("Varfloat64Size", sig, func() { size = enc.Varfloat64Size(r.f) })
		doc = refmodel.DocPutVarfloat(r.f)
	case "f64":
		r.f = float64(e.V)
		x.lib("EncodeFloat64LE", sig, func() { enc.EncodeFloat64LE(&x.buf, r.f) })
		size = 8
		doc = refmodel.DocPutFloat64LE(r.f)
	case "flag":
		r.u = uint64(e.I) & 0xff
		// flags are built from their documented parts and travel as one byte
		x.lib("EncodeFlag", sig, func() {
			one := []byte{byte(r.u)}
			f, err := enc.DecodeFlag(&one)
			if err != nil {
				panic(err)
			}
			enc.EncodeFlag(&x.buf, f)
		})
		size = 1
		doc = []byte{byte(r.u)}
	default:
		return
	}
	r.end = len(x.buf)
	n := r.end - r.start
	x.st.Oracle("length-range")
	if n < 1 || n > 9 || (e.S == "f64" && n != 8) {
		x.fail("length-range", sig, fmt.Sprintf("an encoding of %d bytes", n), "1..9 bytes (8 for fixed floats)", fmt.Sprint(n))
	}
	x.st.Oracle("size-function")
	if size != n {
		x.fail("size-function", sig, fmt.Sprintf("the size function predicts %d bytes for a value encoded in %d", size, n), fmt.Sprint(n), fmt.Sprint(size))
	}
	x.st.Oracle("documented-bytes")
	if hex.EncodeToString(doc) != hex.EncodeToString(x.buf[r.start:r.end]) {
		x.fail("documented-bytes", sig, "the encoding differs from the documented format", hex.EncodeToString(doc), hex.EncodeToString(x.buf[r.start:r.end]))
	}
	for i := 0; i < x.pre; i++ {
		if x.buf[i] != 0x5A {
			x.fail("framing", sig, "an encoder overwrote bytes already in the buffer", "prefix untouched", hex.EncodeToString(x.buf[:x.pre]))
		}
	}
	x.recs = append(x.recs, r)
	x.st.Probe(fmt.Sprintf("record-%s-%dB", e.S, n))
}

// decodeOne decodes one record of the given kind from b with the
// implementation; it returns the consumed length and the value bits.
func (x *codecExec) decodeOne(kind string, b []byte, sig string) (val uint64, n int, err error) {
	rest := b
	x.lib("Decode/"+kind, sig, func() {
		switch kind {
		case "uvarint":
			var v uint64
			v, err = enc.DecodeUvarint64(&rest)
			val = v
		case "varint":
			var v int64
			v, err = enc.DecodeVarint64(&rest)
			val = uint64(v)
		case "varfloat":
			var v float64
			v, err = enc.DecodeVarfloat64(&rest)
			val = fbits(v)
		case "f64":
			var v float64
			v, err = enc.DecodeFloat64LE(&rest)
			val = math.Float64bits(v)
		case "flag":
			var f enc.Flag
			f, err = enc.DecodeFlag(&rest)
			val = uint64(flagByte(f))
		case "varint32":
			var v int32
			v, err = enc.DecodeVarint32(&rest)
			val = uint64(int64(v))
		}
	})
	n = len(b) - len(rest)
	// the returned slice must be a suffix of the input
	if n < 0 || n > len(b) || (len(rest) > 0 && &rest[0] != &b[n]) {
		x.fail("framing", sig, "the decoder did not leave a suffix of its input", "suffix", fmt.Sprintf("consumed %d of %d", n, len(b)))
	}
	return
}

func flagByte(f enc.Flag) byte {
	var b []byte
	enc.EncodeFlag(&b, f)
	return b[0]
}

func expectedBits(r crec) uint64 {
	switch r.kind {
	case "uvarint", "flag":
		return r.u
	case "varint":
		return uint64(r.i)
	case "varfloat":
		return fbits(refmodel.VarfloatTransform(r.f))
	default:
		return math.Float64bits(r.f)
	}
}

// readAll is the reader plus the fault enumeration: the whole stream, then the
// stream cut at every byte, then every record followed by arbitrary bytes.
func (x *codecExec) readAll() {
	stream := x.buf[x.pre:]
	if len(x.recs) == 0 {
		return
	}
	off := x.pre
	// boundaries relative to the stream
	for k := 0; k <= len(stream); k++ {
		cut := stream[:k:k]
		pos := 0
		for _, r := range x.recs {
			s, e := r.start-off, r.end-off
			sig := "read/" + r.kind
			if e <= k {
				val, n, err := x.decodeOne(r.kind, cut[pos:], sig)
				x.st.Oracle("roundtrip")
				if err != nil || n != e-s {
					x.fail("framing", sig, fmt.Sprintf("decoding a complete record of %d bytes (followed by %d more bytes) consumed %d bytes, err=%v", e-s, k-e, n, err), fmt.Sprint(e-s), fmt.Sprint(n))
				}
				if val != expectedBits(r) {
					x.fail("roundtrip", sig, "the decoded value differs from the encoded one", fmt.Sprintf("%#x", expectedBits(r)), fmt.Sprintf("%#x", val))
				}
				if r.kind == "varint" {
					x.checkVarint32(cut[pos:], r.i, sig)
				}
				pos = e
				continue
			}
			// the record is cut (possibly to nothing): end of input, nothing consumed
			x.st.Oracle("prefix-eof-no-consume")
			_, n, err := x.decodeOne(r.kind, cut[pos:], sig)
			if err != io.EOF || n != 0 {
				x.fail("prefix-eof-no-consume", sig, fmt.Sprintf("a record of %d bytes cut to %d bytes: err=%v, %d bytes consumed", e-s, k-s, err, n), "io.EOF, nothing consumed", fmt.Sprintf("err=%v consumed=%d", err, n))
			}
			break
		}
	}
	x.st.Probes["stream-cuts-enumerated"] += len(stream) + 1
	x.st.Fault("stream-cut-at-every-byte")
}

func (x *codecExec) checkVarint32(b []byte, v int64, sig string) {
	x.st.Oracle("varint32-range")
	val, n, err := x.decodeOne("varint32", b, sig)
	in := v >= math.MinInt32 && v <= math.MaxInt32
	if in && (err != nil || int64(val) != v) {
		x.fail("varint32-range", sig, fmt.Sprintf("the 32-bit variant mis-decodes %d (err=%v)", v, err), fmt.Sprint(v), fmt.Sprint(int64(val)))
	}
	if !in && err == nil {
		x.fail("varint32-range", sig, fmt.Sprintf("the 32-bit variant accepted the out-of-range value %d", v), "an error", fmt.Sprint(int64(val)))
	}
	_ = n
	x.st.ProbeIf(!in, "varint32-out-of-range")
}

// feed gives one arbitrary byte string to every decoder: no panic, at most 9
// bytes read, and the same result as the documentation codec.
func (x *codecExec) feed(b []byte, what string) {
	for _, kind := range []string{"uvarint", "varint", "varfloat", "f64", "flag", "varint32"} {
		sig := what + "/" + kind
		val, n, err := x.decodeOne(kind, b, sig)
		x.st.Oracle("no-panic-bounded-read")
		if n > 9 || n > len(b) {
			x.fail("no-panic-bounded-read", sig, fmt.Sprintf("decoder consumed %d bytes of %x", n, b), "<= 9", fmt.Sprint(n))
		}
		if err == io.EOF && n != 0 {
			x.fail("prefix-eof-no-consume", sig, fmt.Sprintf("decoder reported end of input but consumed %d bytes of %x", n, b), "nothing consumed", fmt.Sprint(n))
		}
		// differential against the documentation codec
		var dv uint64
		var dn int
		var derr error
		switch kind {
		case "uvarint":
			dv, dn, derr = refmodel.DocUvarint(b)
		case "varint", "varint32":
			var v int64
			v, dn, derr = refmodel.DocVarint(b)
			dv = uint64(v)
		case "varfloat":
			var v float64
			v, dn, derr = refmodel.DocVarfloat(b)
			dv = fbits(v)
		case "f64":
			var v float64
			v, dn, derr = refmodel.DocFloat64LE(b)
			dv = math.Float64bits(v)
		case "flag":
			if len(b) == 0 {
				derr = refmodel.ErrDocShort
			} else {
				dv, dn = uint64(b[0]), 1
			}
		}
		x.st.Oracle("documented-decoding")
		if kind == "varint32" {
			v := int64(dv)
			if derr == nil && (v > math.MaxInt32 || v < math.MinInt32) {
				if err == nil {
					x.fail("varint32-range", sig, fmt.Sprintf("the 32-bit variant accepted %x, which encodes %d", b, v), "an error", fmt.Sprint(int64(val)))
				}
				continue
			}
		}
		if (derr != nil) != (err != nil) {
			x.fail("documented-decoding", sig, fmt.Sprintf("%x: the documented format says err=%v, the decoder says err=%v", b, derr, err), fmt.Sprint(derr), fmt.Sprint(err))
		}
		if derr != nil {
			if err != io.EOF {
				x.fail("prefix-eof-no-consume", sig, fmt.Sprintf("%x is a strict prefix of an encoding but the error is not end-of-input", b), "io.EOF", fmt.Sprint(err))
			}
			continue
		}
		if dv != val || dn != n {
			x.fail("documented-decoding", sig, fmt.Sprintf("%x decodes differently from the documented format", b), fmt.Sprintf("value %#x, %d bytes", dv, dn), fmt.Sprintf("value %#x, %d bytes", val, n))
		}
	}
}

func (x *codecExec) exhaust() {
	x.feed(nil, "exhaust")
	for a := 0; a < 256; a++ {
		x.feed([]byte{byte(a)}, "exhaust")
		for b := 0; b < 256; b++ {
			x.feed([]byte{byte(a), byte(b)}, "exhaust")
		}
	}
	x.st.Probe("exhaustive-up-to-length-2")
}

// ---- generator ---------------------------------------------------------------------------------

func interestingU64(r *engine.PRNG) uint64 {
	switch r.Pick(20, 25, 25, 10, 20) {
	case 0:
		return uint64(r.Intn(300))
	case 1: // every bit-length class
		k := uint(r.Intn(64))
		return (uint64(1) << k) | (r.Uint64() & ((uint64(1) << k) - 1))
	case 2: // 2^k +- d
		k := uint(r.Intn(65))
		var base uint64
		if k < 64 {
			base = uint64(1) << k
		}
		return base + uint64(int64(r.Range(-3, 3)))
	case 3:
		return []uint64{0, 1, 127, 128, 16383, 16384, math.MaxUint64, math.MaxUint64 - 1, 1 << 63, 1<<63 - 1, 1<<56 - 1, 1 << 56, 1<<32 - 1, 1 << 32, 1<<31 - 1, 1 << 31}[r.Intn(16)]
	}
	return r.Uint64()
}

func interestingF64(r *engine.PRNG) float64 {
	switch r.Pick(25, 15, 15, 15, 10, 20) {
	case 0:
		return float64(r.Intn(1000))
	case 1: // integers below 2^53
		return float64(r.Uint64() >> uint(11+r.Intn(53)))
	case 2:
		return []float64{0, math.Copysign(0, -1), 1, -1, 0.5, math.NaN(), math.Inf(1), math.Inf(-1), math.MaxFloat64, -math.MaxFloat64, math.SmallestNonzeroFloat64, 2.2250738585072014e-308, 1 << 53, 1<<53 - 1, 1<<53 + 2, -0.75, 1e-17}[r.Intn(17)]
	case 3: // dyadic fractions and sums that survive +1/-1
		return float64(r.Range(1, 4096)) * math.Ldexp(1, -r.Range(1, 40))
	case 4: // subnormals and negatives
		v := math.Float64frombits(r.Uint64() & 0x000fffffffffffff)
		if r.Pct(50) {
			v = -v
		}
		return v
	}
	return math.Float64frombits(r.Uint64())
}

func GenCodecWorld(r *engine.PRNG, run int, tier string) *engine.Plan {
	p := &engine.Plan{Config: map[string]string{}}
	p.Config["prefix"] = fmt.Sprint(r.Range(0, 20))
	p.Config["spare"] = fmt.Sprint(r.Range(0, 64))
	n := r.Range(1, 14)
	if r.Pct(20) {
		n = r.Range(14, 40)
	}
	t := int64(0)
	for i := 0; i < n; i++ {
		t += int64(r.Range(1, 100))
		e := engine.Event{Ev: "rec", T: t}
		switch r.Pick(25, 25, 30, 12, 8) {
		case 0:
			e.S, e.I = "uvarint", int64(interestingU64(r))
		case 1:
			e.S, e.I = "varint", int64(interestingU64(r))
			if r.Pct(50) {
				e.I = -e.I
			}
			if r.Pct(25) { // around the int32 limits
				e.I = []int64{math.MaxInt32, math.MaxInt32 + 1, math.MinInt32, math.MinInt32 - 1, math.MaxInt64, math.MinInt64}[r.Intn(6)]
			}
		case 2:
			e.S, e.V = "varfloat", engine.F64(interestingF64(r))
		case 3:
			e.S, e.V = "f64", engine.F64(interestingF64(r))
		default:
			e.S, e.I = "flag", int64(r.Intn(256))
		}
		p.Events = append(p.Events, e)
	}
	for k := r.Range(0, 6); k > 0; k-- {
		b := make([]byte, r.Range(0, 12))
		for i := range b {
			switch r.Pick(4, 3, 3) {
			case 0:
				b[i] = byte(r.Intn(256))
			case 1:
				b[i] = 0x80 | byte(r.Intn(128)) // continuation bytes: long encodings
			default:
				b[i] = 0xff
			}
		}
		p.Events = append(p.Events, engine.Event{Ev: "bytes", B: hex.EncodeToString(b), T: t})
	}
	if run%400 == 0 {
		p.Events = append(p.Events, engine.Event{Ev: "exhaust", T: t})
	}
	return p
}
