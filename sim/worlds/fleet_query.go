package worlds

import (
	"errors"
	"fmt"
	"math"
	"math/big"

	"github.com/DataDog/sketches-go/ddsketch"
	"github.com/DataDog/sketches-go/ddsketch/mapping"

	"verif/sim/engine"
	"verif/sim/refmodel"
)

// Accuracy margin (DESIGN 4.4): an estimate e is "within alpha of x" iff
// |e-x| <= (alpha_configured + 1e-11)*|x| and e == 0 when x counts as zero.
const accMargin = 1e-11

// withinAlphaItem: "values closer to zero than the smallest indexable magnitude
// count as 0" is applied to both sides of the comparison: when the order
// statistic counts as 0, an answer that itself is closer to zero than the
// smallest indexable magnitude counts as 0 as well (the exact-summary variant
// clamps its answers to the exact extremes, which may be such sub-minimum
// values).
func withinAlphaItem(est float64, it refmodel.Item, alpha, minIndexable float64) bool {
	if it.V == 0 && math.Abs(est) < minIndexable {
		return true
	}
	return withinAlpha(est, it.V, alpha)
}

func withinAlpha(est, x, alpha float64) bool {
	if x == 0 {
		return est == 0
	}
	return math.Abs(est-x) <= (alpha+accMargin)*math.Abs(x)
}

// ---- C01: rank accuracy -----------------------------------------------------------

type hookC01 struct{ noHook }

func (hookC01) query(x *fleetExec, e engine.Event, nd *knode) {
	c01Query(x, e, nd, "rank-accuracy")
}

func c01Query(x *fleetExec, e engine.Event, nd *knode, oracle string) {
	sig := x.sigFor(e)
	items := nd.model.Sorted(nd.mapping.MinIndexableValue())
	if len(items) == 0 {
		return
	}
	if nd.model.NonUnit {
		return // C01 is about values added one at a time
	}
	n := int(nd.model.Count()) // unit weights: the count is the number of values
	minIdx := nd.mapping.MinIndexableValue()
	singles := make([]float64, len(e.Q))
	for i, qf := range e.Q {
		q := float64(qf)
		if !(q >= 0 && q <= 1) {
			return
		}
		var got float64
		var err error
		x.lib("GetValueAtQuantile", sig, func() { got, err = nd.real.GetValueAtQuantile(q) })
		x.st.Oracle(oracle)
		x.st.Note(fbits(got))
		if err != nil {
			x.fail(oracle, sig, fmt.Sprintf("GetValueAtQuantile(%v) on a non-empty sketch returned an error: %v", q, err), "a value", err.Error())
		}
		singles[i] = got
		r := refmodel.RankExact(q, float64(n))
		lo, hi := refmodel.FloorCeil(r)
		if lo < 0 || hi > int64(n-1) {
			panic(fmt.Sprintf("harness: rank out of range: q=%v n=%d", q, n))
		}
		ilo, ihi := refmodel.ItemAt(items, lo), refmodel.ItemAt(items, hi)
		xlo, xhi := ilo.V, ihi.V
		alpha := nd.alpha()
		name := oracle
		if q == 0 || q == 1 {
			name = "extremes-q0-q1"
			if oracle != "rank-accuracy" {
				name = oracle
			}
			x.st.Oracle(name)
		}
		if !withinAlphaItem(got, ilo, alpha, minIdx) && !withinAlphaItem(got, ihi, alpha, minIdx) {
			x.fail(name, sig, fmt.Sprintf("quantile %v of %d values: the answer is not within alpha=%v of the order statistic at floor or ceiling of q*(n-1)=%s", q, n, alpha, r.FloatString(6)),
				fmt.Sprintf("within %v of %v (rank %d) or %v (rank %d)", alpha, xlo, lo, xhi, hi), fmt.Sprint(got))
		}
		x.st.ProbeIf(lo != hi, "rank-between-two-order-statistics")
		x.st.ProbeIf(xlo == 0 || xhi == 0, "order-statistic-in-zero-bucket")
		x.st.ProbeIf(xlo < 0, "order-statistic-negative")
	}
	if oracle == "rank-accuracy" {
		x.st.Oracle("batch-equals-single")
		qs := make([]float64, len(e.Q))
		for i, q := range e.Q {
			qs[i] = float64(q)
		}
		var batch []float64
		var err error
		x.lib("GetValuesAtQuantiles", sig, func() { batch, err = nd.real.GetValuesAtQuantiles(qs) })
		if err != nil || len(batch) != len(singles) {
			x.fail("batch-equals-single", sig, fmt.Sprintf("GetValuesAtQuantiles(%v) failed or has the wrong length (err=%v)", qs, err), fmt.Sprint(singles), fmt.Sprint(batch))
		}
		for i := range batch {
			if fbits(batch[i]) != fbits(singles[i]) {
				x.fail("batch-equals-single", sig, fmt.Sprintf("GetValuesAtQuantiles differs from GetValueAtQuantile at q=%v", qs[i]), fmt.Sprint(singles[i]), fmt.Sprint(batch[i]))
			}
		}
	}
}

// ---- C11: weighted quantiles ---------------------------------------------------------

type hookC11 struct{ noHook }

func (hookC11) query(x *fleetExec, e engine.Event, nd *knode) {
	if nd.tainted {
		return // the result of a unit change: its weights are no longer exactly known (C17 describes it)
	}
	sig := x.sigFor(e)
	items := nd.model.Sorted(nd.mapping.MinIndexableValue())
	if len(items) == 0 {
		return
	}
	W := nd.model.Count()
	alpha := nd.alpha()
	var mn, mx float64
	var e1, e2 error
	x.lib("GetMinValue", sig, func() { mn, e1 = nd.real.GetMinValue() })
	x.lib("GetMaxValue", sig, func() { mx, e2 = nd.real.GetMaxValue() })
	if e1 != nil || e2 != nil {
		x.fail("inside-min-max", sig, "GetMinValue/GetMaxValue of a non-empty sketch returned an error", "values", fmt.Sprint(e1, e2))
	}
	x.st.ProbeIf(W < 1, "total-weight-below-one")
	slack := new(big.Rat).SetFloat64(1e-9 * (W + 1))
	one := big.NewRat(1, 1)
	for _, qf := range e.Q {
		q := float64(qf)
		if !(q >= 0 && q <= 1) {
			continue
		}
		var got float64
		var err error
		x.lib("GetValueAtQuantile", sig, func() { got, err = nd.real.GetValueAtQuantile(q) })
		x.st.Note(fbits(got))
		if err != nil {
			x.fail("rank-window", sig, fmt.Sprintf("GetValueAtQuantile(%v) on a non-empty sketch returned an error: %v", q, err), "a value", err.Error())
		}
		x.st.Oracle("inside-min-max")
		if !(got >= mn && got <= mx) {
			x.fail("inside-min-max", sig, fmt.Sprintf("quantile %v (total weight %v) is outside the reported [min, max]", q, W), fmt.Sprintf("[%v, %v]", mn, mx), fmt.Sprint(got))
		}
		x.st.Oracle("rank-window")
		r := refmodel.RankExact(q, W)
		loB := new(big.Rat).Sub(r, one)
		loB.Sub(loB, slack)
		hiB := new(big.Rat).Add(r, one)
		hiB.Add(hiB, slack)
		x.st.ProbeIf(r.Sign() < 0, "negative-rank")
		cum := 0.0
		ok := false
		var cands []float64
		for _, it := range items {
			c0 := cum
			cum += it.W
			// cumulative-weight interval [c0, cum] meets [r-1, r+1]
			if new(big.Rat).SetFloat64(c0).Cmp(hiB) <= 0 && new(big.Rat).SetFloat64(cum).Cmp(loB) >= 0 {
				if len(cands) < 6 {
					cands = append(cands, it.V)
				}
				if withinAlphaItem(got, it, alpha, nd.mapping.MinIndexableValue()) {
					ok = true
					break
				}
			}
		}
		if !ok {
			x.fail("rank-window", sig, fmt.Sprintf("quantile %v, total weight %v: the answer is not within alpha=%v of any absorbed value whose cumulative-weight interval lies within one unit of q*(W-1)=%s", q, W, alpha, r.FloatString(6)),
				fmt.Sprintf("near one of %v ...", cands), fmt.Sprint(got))
		}
	}
}

// ---- C12: coherence invariants after every event -----------------------------------------

type hookC12 struct{ noHook }

func (hookC12) after(x *fleetExec, e engine.Event, nd *knode) { c12Check(x, e, nd) }
func (hookC12) query(x *fleetExec, e engine.Event, nd *knode) { c12Check(x, e, nd) }

var c12Grid = []float64{0, 0.001, 0.01, 0.05, 0.1, 0.25, 0.5, 0.5, 0.75, 0.9, 0.95, 0.99, 0.999, 1}

func c12Check(x *fleetExec, e engine.Event, nd *knode) {
	sig := x.sigFor(e)
	s := nd.real
	m := nd.model
	alpha := nd.alpha()
	var count, zero, pt, nt float64
	var empty bool
	x.lib("GetCount", sig, func() { count = s.GetCount() })
	x.lib("GetZeroCount", sig, func() { zero = s.GetZeroCount() })
	x.lib("TotalCount", sig, func() { pt = s.GetPositiveValueStore().TotalCount() })
	x.lib("TotalCount", sig, func() { nt = s.GetNegativeValueStore().TotalCount() })
	x.lib("IsEmpty", sig, func() { empty = s.IsEmpty() })
	x.st.Note(fbits(count))
	x.st.Oracle("count-parts")
	if count != zero+pt+nt || count != m.Count() {
		x.fail("count-parts", sig, "count differs from zero weight plus both sides, or from the total absorbed weight",
			fmt.Sprintf("%v (= model zero %v + pos %v + neg %v)", m.Count(), m.Zero, m.Pos.Total(), m.Neg.Total()), fmt.Sprintf("count=%v zero=%v pos=%v neg=%v", count, zero, pt, nt))
	}
	x.st.Oracle("empty")
	if empty != (m.Count() == 0) {
		x.fail("empty", sig, "IsEmpty does not hold exactly when the total weight is zero", fmt.Sprint(m.Count() == 0), fmt.Sprint(empty))
	}
	var mn, mx float64
	var e1, e2 error
	x.lib("GetMinValue", sig, func() { mn, e1 = s.GetMinValue() })
	x.lib("GetMaxValue", sig, func() { mx, e2 = s.GetMaxValue() })
	if m.Count() == 0 {
		if e1 == nil || e2 == nil {
			x.fail("min-max-accuracy", sig, "GetMinValue/GetMaxValue of an empty sketch must return an error", "errors", fmt.Sprint(mn, mx))
		}
		return
	}
	if e1 != nil || e2 != nil {
		x.fail("min-max-accuracy", sig, "GetMinValue/GetMaxValue of a non-empty sketch returned an error", "values", fmt.Sprint(e1, e2))
	}
	// true extremes; when the relevant end of a bounded store is folded, the clamped extreme (bin level)
	x.st.Oracle("min-max-accuracy")
	items := m.Sorted(nd.mapping.MinIndexableValue())
	wantMin, wantMax := items[0].V, items[len(items)-1].V
	posB, negB := m.Pos.Bins(), m.Neg.Bins()
	_, posFolded := m.Pos.Edge()
	_, negFolded := m.Neg.Edge()
	lossy := m.Lossy
	checkExtreme := func(name string, got, want float64, clamped bool, clampIdx int, sign float64) {
		if clamped {
			exp := sign * nd.mapping.Value(clampIdx)
			if got != exp {
				x.fail("min-max-accuracy", sig, fmt.Sprintf("%s of a collapsed sketch is not the clamped extreme", name), fmt.Sprint(exp), fmt.Sprint(got))
			}
			x.st.Probe("extreme-checked-at-bin-level")
			return
		}
		if !withinAlpha(got, want, alpha) {
			x.fail("min-max-accuracy", sig, fmt.Sprintf("%s is not within alpha=%v of the true extreme", name, alpha), fmt.Sprint(want), fmt.Sprint(got))
		}
	}
	// minimum: most negative value = highest index of the negative store; else zero; else lowest positive index
	switch {
	case len(negB) > 0:
		clamped := lossy || negFolded && nd.spec.Store == refmodel.CHigh
		checkExtreme("GetMinValue", mn, wantMin, clamped, negB[len(negB)-1].Index, -1)
	case m.Zero > 0:
		checkExtreme("GetMinValue", mn, 0, false, 0, 1)
	default:
		clamped := lossy || posFolded && nd.spec.Store == refmodel.CLow
		checkExtreme("GetMinValue", mn, wantMin, clamped, posB[0].Index, 1)
	}
	switch {
	case len(posB) > 0:
		clamped := lossy || posFolded && nd.spec.Store == refmodel.CHigh
		checkExtreme("GetMaxValue", mx, wantMax, clamped, posB[len(posB)-1].Index, 1)
	case m.Zero > 0:
		checkExtreme("GetMaxValue", mx, 0, false, 0, 1)
	default:
		clamped := lossy || negFolded && nd.spec.Store == refmodel.CLow
		checkExtreme("GetMaxValue", mx, wantMax, clamped, negB[0].Index, -1)
	}
	// quantiles: monotone in q, inside [min, max], batch == single
	qs := c12Grid
	if len(e.Q) > 0 {
		qs = append([]float64(nil), c12Grid...)
		for _, q := range e.Q {
			if q >= 0 && q <= 1 {
				qs = append(qs, float64(q))
			}
		}
		sortFloats(qs)
	}
	x.st.Oracle("monotone-in-q")
	prev := math.Inf(-1)
	singles := make([]float64, len(qs))
	for i, q := range qs {
		var got float64
		var err error
		x.lib("GetValueAtQuantile", sig, func() { got, err = s.GetValueAtQuantile(q) })
		if err != nil {
			x.fail("monotone-in-q", sig, fmt.Sprintf("GetValueAtQuantile(%v) on a non-empty sketch returned an error: %v", q, err), "a value", err.Error())
		}
		singles[i] = got
		x.st.Note(fbits(got))
		if got < prev {
			x.fail("monotone-in-q", sig, fmt.Sprintf("quantile answers decrease: q=%v gives %v after %v", q, got, prev), ">= "+fmt.Sprint(prev), fmt.Sprint(got))
		}
		prev = got
		if !(got >= mn && got <= mx) {
			x.st.Oracle("inside-min-max")
			x.fail("inside-min-max", sig, fmt.Sprintf("quantile %v is outside the reported [min, max]", q), fmt.Sprintf("[%v, %v]", mn, mx), fmt.Sprint(got))
		}
	}
	x.st.Oracle("inside-min-max")
	x.st.Oracle("batch-equals-single")
	var batch []float64
	var err error
	x.lib("GetValuesAtQuantiles", sig, func() { batch, err = s.GetValuesAtQuantiles(qs) })
	if err != nil || len(batch) != len(singles) {
		x.fail("batch-equals-single", sig, fmt.Sprintf("GetValuesAtQuantiles failed or has the wrong length (err=%v)", err), fmt.Sprint(singles), fmt.Sprint(batch))
	}
	for i := range batch {
		if fbits(batch[i]) != fbits(singles[i]) {
			x.fail("batch-equals-single", sig, fmt.Sprintf("GetValuesAtQuantiles differs from GetValueAtQuantile at q=%v", qs[i]), fmt.Sprint(singles[i]), fmt.Sprint(batch[i]))
		}
	}
	// approximate sum for same-signed data, no folding
	if !posFolded && !negFolded && !lossy && !nd.exact() && (wantMin >= 0 || wantMax <= 0) {
		x.st.Oracle("approx-sum")
		exact := new(big.Float).SetPrec(2400)
		for _, it := range items {
			t := new(big.Float).SetPrec(2400).SetFloat64(it.V)
			exact.Add(exact, t.Mul(t, new(big.Float).SetPrec(2400).SetFloat64(it.W)))
		}
		want, _ := exact.Float64()
		var sum float64
		x.lib("GetSum", sig, func() { sum = s.GetSum() })
		if math.Abs(want) < math.MaxFloat64/4 && math.Abs(sum-want) > (alpha+1e-9)*math.Abs(want) {
			x.fail("approx-sum", sig, fmt.Sprintf("GetSum is not within alpha=%v of the true sum of same-signed data", alpha), fmt.Sprint(want), fmt.Sprint(sum))
		}
	}
	// iteration
	x.st.Oracle("foreach-bins")
	visits := 0
	total := 0.0
	seen := map[uint64]bool{}
	bad := ""
	x.lib("ForEach", sig, func() {
		s.ForEach(func(v, c float64) bool {
			visits++
			total += c
			if !(c > 0) && bad == "" {
				bad = fmt.Sprintf("value %v visited with weight %v", v, c)
			}
			if seen[fbits(v)] && bad == "" {
				bad = fmt.Sprintf("value %v visited twice", v)
			}
			seen[fbits(v)] = true
			return false
		})
	})
	wantVisits := len(posB) + len(negB)
	if m.Zero > 0 {
		wantVisits++
	}
	if bad != "" || visits != wantVisits || total != m.Count() {
		x.fail("foreach-bins", sig, "ForEach does not yield each non-empty bin once with positive weight summing to the count: "+bad,
			fmt.Sprintf("%d bins, total %v", wantVisits, m.Count()), fmt.Sprintf("%d bins, total %v", visits, total))
	}
	if wantVisits > 0 {
		x.st.Oracle("foreach-stop")
		k := (x.at*7 + int(e.I)) % wantVisits
		calls := 0
		stopped := false
		x.lib("ForEach", sig, func() {
			s.ForEach(func(v, c float64) bool {
				if stopped {
					x.fail("foreach-stop", sig, "ForEach called the function again after it returned true", fmt.Sprintf("%d calls", k+1), "more calls")
				}
				calls++
				if calls > k {
					stopped = true
					return true
				}
				return false
			})
		})
		x.st.ProbeIf(m.Zero > 0 && k == 0, "stop-at-zero-bucket")
		x.st.ProbeIf(len(posB) > 0 && len(negB) > 0 && k >= len(posB), "stop-inside-negative-side")
	}
	x.st.ProbeIf(len(posB) == 0 && len(negB) > 0 && m.Zero == 0, "only-negatives")
	x.st.ProbeIf(len(posB) == 0 && len(negB) > 0 && m.Zero > 0, "zeros-and-negatives")
	x.st.ProbeIf(len(posB) == 0 && len(negB) == 0 && m.Zero > 0, "only-zeros")
}

func sortFloats(a []float64) {
	for i := 1; i < len(a); i++ {
		for j := i; j > 0 && a[j] < a[j-1]; j-- {
			a[j], a[j-1] = a[j-1], a[j]
		}
	}
}

// ---- C13: invalid input ---------------------------------------------------------------------

type hookC13 struct{ noHook }

// badreq N S ... : a request the API must refuse.
//
//	S = add      V W      invalid value and/or negative weight
//	S = quantile Q        q not a number in [0,1], or any q on an empty sketch
//	S = merge    M        merge with a sketch of another mapping
//	S = reweight W        factor <= 0
//	S = ctor     V I      constructor parameters at and beyond the limits (V = parameter, I = which constructor)
// decayq N : on a copy of node N every weight is re-weighted away (two factors of 2^-600 make them
// underflow to 0): its count is then 0 and a quantile request must be refused like on an empty sketch.
func c13DecayQuery(x *fleetExec, e engine.Event) {
	nd := x.nodes[e.N]
	if nd == nil || nd.dirty || nd.model.IsEmpty() {
		return
	}
	sig := "decayq/" + nd.spec.Role + "/" + nd.spec.Store
	c := copySk(nd.real)
	for k := 0; k < 2; k++ {
		x.lib("Reweight", sig, func() {
			if err := c.Reweight(math.Ldexp(1, -600)); err != nil {
				x.fail("accepts-valid", sig, "Reweight(2^-600) refused: "+err.Error(), "accepted", err.Error())
			}
		})
	}
	var count float64
	x.lib("GetCount", sig, func() { count = c.GetCount() })
	if count != 0 {
		return
	}
	x.st.Oracle("error-identity")
	x.st.Probe("quantile-of-a-sketch-whose-weights-decayed-to-zero")
	var e1, e2 error
	x.lib("GetValueAtQuantile", sig, func() { _, e1 = c.GetValueAtQuantile(0.5) })
	x.lib("GetValuesAtQuantiles", sig, func() { _, e2 = c.GetValuesAtQuantiles([]float64{0, 1}) })
	if e1 == nil || e2 == nil {
		x.fail("error-identity", sig, "a sketch whose count is 0 answered a quantile request", "the empty-sketch error", fmt.Sprint(e1, " / ", e2))
	}
}

func (hookC13) event(x *fleetExec, e engine.Event) bool {
	if e.Ev == "query" {
		return false
	}
	if e.Ev == "decayq" {
		c13DecayQuery(x, e)
		return true
	}
	if e.Ev != "badreq" {
		return false
	}
	if e.S == "ctor" {
		c13Ctor(x, e)
		return true
	}
	nd := x.nodes[e.N]
	if nd == nil {
		return true
	}
	sig := "badreq:" + e.S + "/" + nd.spec.Role + "/" + nd.spec.Store
	s := nd.real
	before := x.snapSketch(s, "before-refused-call")
	var err error
	want := error(nil)
	refusedWhat := ""
	switch e.S {
	case "add":
		v, w := float64(e.V), float64(e.W)
		maxv := nd.mapping.MaxIndexableValue()
		// "indexable" also means that the bin index fits 32 bits (it travels as an int32): judged here on the
		// index itself, not on the bound the mapping reports
		over := false
		if a := math.Abs(v); !math.IsNaN(v) && a <= maxv && a >= nd.mapping.MinIndexableValue() {
			x.lib("Index", sig, func() {
				idx := nd.mapping.Index(a)
				over = idx > math.MaxInt32 || idx < math.MinInt32
			})
			if over {
				x.st.Probe("index-beyond-int32-offered") // only a mapping that reports too large a bound gets here
			}
		}
		badV := math.IsNaN(v) || math.Abs(v) > maxv || over
		badW := w < 0
		if math.IsNaN(w) || math.IsInf(w, 1) || (!badV && !badW) {
			return true // outside the contract, or not a bad request at all
		}
		if w == 0 && badV {
			return true // weight 0 adds nothing; whether the value is validated is not specified
		}
		switch {
		case badW && badV:
			want = nil // either documented error is acceptable
		case badW:
			want = ddsketch.ErrNegativeCount
		case math.IsNaN(v):
			want = ddsketch.ErrUntrackableNaN
		case v > maxv || (over && v > 0):
			want = ddsketch.ErrUntrackableTooHigh
		default:
			want = ddsketch.ErrUntrackableTooLow
		}
		x.lib("AddWithCount", sig, func() {
			if e.I == 1 && w == 1 {
				err = s.Add(v)
			} else {
				err = s.AddWithCount(v, w)
			}
		})
		refusedWhat = fmt.Sprintf("AddWithCount(%v, %v)", v, w)
		x.st.Oracle("error-identity")
		if err == nil {
			x.fail("error-identity", sig, refusedWhat+" was accepted", "documented error", "nil")
		}
		if want != nil && !errors.Is(err, want) {
			x.fail("error-identity", sig, refusedWhat+" returned the wrong error", want.Error(), err.Error())
		}
		if want == nil && !errors.Is(err, ddsketch.ErrNegativeCount) && !errors.Is(err, ddsketch.ErrUntrackableNaN) && !errors.Is(err, ddsketch.ErrUntrackableTooHigh) && !errors.Is(err, ddsketch.ErrUntrackableTooLow) {
			x.fail("error-identity", sig, refusedWhat+" returned an undocumented error", "one of the documented errors", err.Error())
		}
		x.st.Probe("refused-add")
	case "quantile":
		if len(e.Q) != 1 {
			return true
		}
		q := float64(e.Q[0])
		valid := q >= 0 && q <= 1
		if valid && !nd.model.IsEmpty() {
			return true
		}
		var got float64
		x.lib("GetValueAtQuantile", sig, func() { got, err = s.GetValueAtQuantile(q) })
		refusedWhat = fmt.Sprintf("GetValueAtQuantile(%v) (sketch empty: %v)", q, nd.model.IsEmpty())
		x.st.Oracle("error-identity")
		if err == nil {
			x.fail("error-identity", sig, refusedWhat+" was accepted", "an error", fmt.Sprint(got))
		}
		// the batch query must refuse the list wherever the bad quantile stands
		for _, list := range [][]float64{{0.5, q}, {q, 0.5}, {0.25, q, 0.75}, {q}} {
			var batch []float64
			var berr error
			x.lib("GetValuesAtQuantiles", sig, func() { batch, berr = s.GetValuesAtQuantiles(list) })
			if berr == nil {
				x.fail("error-identity", sig, fmt.Sprintf("GetValuesAtQuantiles(%v) was accepted (sketch empty: %v)", list, nd.model.IsEmpty()), "an error", fmt.Sprint(batch))
			}
		}
		x.st.ProbeIf(math.IsNaN(q), "refused-nan-quantile")
		x.st.ProbeIf(valid, "refused-query-on-empty-sketch")
	case "merge":
		src := x.nodes[e.M]
		if src == nil || src.mkey == nd.mkey || (nd.exact() && !src.exact()) {
			return true
		}
		// mappings of different kinds, of clearly different accuracy, or with the same base and another offset
		if diff, ok := clearlyDifferent(&src.spec, &nd.spec, true); !ok || !diff {
			return true
		}
		srcBefore := x.snapSketch(src.real, "merge-arg-before")
		x.lib("MergeWith", sig, func() {
			switch d := s.(type) {
			case *ddsketch.DDSketch:
				err = d.MergeWith(plainOf(src.real))
			case *ddsketch.DDSketchWithExactSummaryStatistics:
				err = d.MergeWith(src.real.(*ddsketch.DDSketchWithExactSummaryStatistics))
			}
		})
		refusedWhat = "MergeWith(sketch with another mapping)"
		x.st.Oracle("error-identity")
		if err == nil {
			x.fail("error-identity", sig, refusedWhat+" was accepted", "an error", "nil")
		}
		srcAfter := x.snapSketch(src.real, "merge-arg-after")
		if d := srcBefore.diff(srcAfter, false); d != "" {
			x.fail("refusal-atomic", sig, "a refused merge changed its argument: "+d, srcBefore.String(), srcAfter.String())
		}
		x.st.Probe("refused-merge")
	case "reweight":
		w := float64(e.W)
		if !(w <= 0) {
			return true
		}
		x.lib("Reweight", sig, func() { err = s.Reweight(w) })
		refusedWhat = fmt.Sprintf("Reweight(%v)", w)
		x.st.Oracle("error-identity")
		if err == nil {
			x.fail("error-identity", sig, refusedWhat+" was accepted", "an error", "nil")
		}
		x.st.Probe("refused-reweight")
	default:
		return true
	}
	x.st.Oracle("refusal-atomic")
	after := x.snapSketch(s, "after-refused-call")
	if d := before.diff(after, false); d != "" {
		x.fail("refusal-atomic", sig, "the refused call "+refusedWhat+" changed the sketch: "+d, before.String(), after.String())
	}
	x.st.Note(after.hash())
	return true
}

func c13Ctor(x *fleetExec, e engine.Event) {
	v := float64(e.V)
	if math.IsNaN(v) {
		return
	}
	sig := fmt.Sprintf("badreq:ctor/%d", e.I)
	x.st.Oracle("constructor-refuses")
	var err error
	var m mapping.IndexMapping
	isAlpha := e.I < 6
	switch e.I {
	case 0:
		x.lib("NewLogarithmicMapping", sig, func() { m, err = mapping.NewLogarithmicMapping(v) })
	case 1:
		x.lib("NewLinearlyInterpolatedMapping", sig, func() { m, err = mapping.NewLinearlyInterpolatedMapping(v) })
	case 2:
		x.lib("NewCubicallyInterpolatedMapping", sig, func() { m, err = mapping.NewCubicallyInterpolatedMapping(v) })
	case 3:
		x.lib("NewDefaultDDSketch", sig, func() { _, err = ddsketch.NewDefaultDDSketch(v) })
	case 4:
		x.lib("LogCollapsingLowestDenseDDSketch", sig, func() { _, err = ddsketch.LogCollapsingLowestDenseDDSketch(v, 16) })
	case 5:
		x.lib("NewDefaultDDSketchWithExactSummaryStatistics", sig, func() { _, err = ddsketch.NewDefaultDDSketchWithExactSummaryStatistics(v) })
	case 6:
		x.lib("NewLogarithmicMappingWithGamma", sig, func() { m, err = mapping.NewLogarithmicMappingWithGamma(v, float64(e.W)) })
	case 7:
		x.lib("NewLinearlyInterpolatedMappingWithGamma", sig, func() { m, err = mapping.NewLinearlyInterpolatedMappingWithGamma(v, float64(e.W)) })
	case 8:
		x.lib("NewCubicallyInterpolatedMappingWithGamma", sig, func() { m, err = mapping.NewCubicallyInterpolatedMappingWithGamma(v, float64(e.W)) })
	default:
		return
	}
	_ = m
	var shouldRefuse bool
	if isAlpha {
		shouldRefuse = !(v > 0 && v < 1)
	} else {
		shouldRefuse = !(v > 1)
	}
	if math.IsInf(v, 0) && !isAlpha {
		return // an infinite base is outside the finite-parameter contract
	}
	if shouldRefuse && err == nil {
		x.fail("constructor-refuses", sig, fmt.Sprintf("constructor %d accepted the out-of-range parameter %v", e.I, v), "an error", "nil")
	}
	if !shouldRefuse && err != nil {
		x.fail("constructor-refuses", sig, fmt.Sprintf("constructor %d refused the valid parameter %v: %v", e.I, v, err), "accepted", err.Error())
	}
	x.st.ProbeIf(shouldRefuse, "constructor-refused")
}

func init() {
	fleetHooks["C01"] = func() fleetHook { return hookC01{} }
	fleetHooks["C11"] = func() fleetHook { return hookC11{} }
	fleetHooks["C12"] = func() fleetHook { return hookC12{} }
	fleetHooks["C13"] = func() fleetHook { return hookC13{} }
}

// ---- C05, sketch level: accuracy of quantiles that fall in retained bins ---------------------

type hookC05 struct{ noHook }

// retained reports whether a value sits in a bin that the bounded store still
// holds on its own (not the edge bin, not folded).
func retained(nd *knode, v float64) bool {
	side, idx := route(nd.mapping, v)
	var st *refmodel.RefStore
	switch side {
	case 0:
		return true
	case 1:
		st = nd.model.Pos
	default:
		st = nd.model.Neg
	}
	edge, folded := st.Edge()
	if !folded {
		return true
	}
	if st.Kind == refmodel.CLow {
		return idx > edge
	}
	return idx < edge
}

func (hookC05) query(x *fleetExec, e engine.Event, nd *knode) {
	if nd.model.NonUnit || nd.model.Lossy || nd.exact() || !refmodel.IsCollapsing(nd.spec.Store) {
		return // non-collapsing partners answer for C01, not here
	}
	sig := x.sigFor(e)
	items := nd.model.Sorted(nd.mapping.MinIndexableValue())
	if len(items) == 0 {
		return
	}
	n := int(nd.model.Count())
	minIdx := nd.mapping.MinIndexableValue()
	alpha := nd.alpha()
	for _, qf := range e.Q {
		q := float64(qf)
		if !(q >= 0 && q <= 1) {
			continue
		}
		r := refmodel.RankExact(q, float64(n))
		lo, hi := refmodel.FloorCeil(r)
		ilo, ihi := refmodel.ItemAt(items, lo), refmodel.ItemAt(items, hi)
		if !retained(nd, ilo.Raw) || !retained(nd, ihi.Raw) {
			x.st.Probe("quantile-in-collapsed-range(skipped)")
			continue
		}
		var got float64
		var err error
		x.lib("GetValueAtQuantile", sig, func() { got, err = nd.real.GetValueAtQuantile(q) })
		x.st.Oracle("retained-bin-accuracy")
		x.st.Note(fbits(got))
		if err != nil {
			x.fail("retained-bin-accuracy", sig, fmt.Sprintf("GetValueAtQuantile(%v) on a non-empty sketch failed: %v", q, err), "a value", err.Error())
		}
		if !withinAlphaItem(got, ilo, alpha, minIdx) && !withinAlphaItem(got, ihi, alpha, minIdx) {
			x.fail("retained-bin-accuracy", sig, fmt.Sprintf("quantile %v of %d values falls in a retained bin of a collapsing sketch but is not within alpha=%v of the order statistic", q, n, alpha),
				fmt.Sprintf("within %v of %v or %v", alpha, ilo.V, ihi.V), fmt.Sprint(got))
		}
		x.st.ProbeIf(nd.model.Folded(), "accurate-quantile-on-a-collapsed-sketch")
	}
}

func (hookC05) after(x *fleetExec, e engine.Event, nd *knode) {
	// content, bounds and conservation at sketch level as well
	if refmodel.IsCollapsing(nd.spec.Store) {
		x.compareContent(nd.real, nd.model, "folded-content", x.sigFor(e), "collapsing sketch after "+e.Ev)
	}
}

func init() { fleetHooks["C05"] = func() fleetHook { return hookC05{} } }
