package worlds

import (
	"bytes"
	"encoding/hex"
	"fmt"
	"math"
	"sort"

	enc "github.com/DataDog/sketches-go/ddsketch/encoding"
	"github.com/DataDog/sketches-go/ddsketch/pb/sketchpb"
	"github.com/DataDog/sketches-go/ddsketch/store"
	"google.golang.org/protobuf/proto"

	"verif/sim/engine"
	"verif/sim/refmodel"
)

// W-store, the "store bench": 1-4 bare stores of mixed kinds and bin limits
// connected by byte links. Properties: C04 (non-collapsing stores are exact
// maps), C05 store half (collapsing stores), and the store halves of C14, C15
// and C16.
//
// Events (fields of engine.Event):
//
//	add      N I          Add(I)
//	addw     N I W        AddWithCount(I, W)
//	addbin   N I W        AddBin(NewBin(I, W))
//	addrun   N I J L      J unit Adds at I + (t*L[0]) mod L[1], t = 0..J-1
//	merge    N M          N.MergeWith(M)
//	copy     N M          node M := N.Copy()
//	clear    N
//	reweight N W
//	send     N J S I      serialise N into message J; S = bin | pb | pbstream; I = buffer prefix length (bin)
//	deliver  N J          decode message J into N (any number of times, any later moment)
//	read     N S I        observers; S = all | total | minmax | foreach | bins | rank | stop ; I = parameter
//
// A message is a snapshot: the model content is captured at send time, so a
// delayed, re-ordered or duplicated delivery has an exact expected result.

type smsg struct {
	form       string
	data       []byte
	content    []refmodel.RefBin
	gran       int
	tainted    bool
	deliveries int
	sentAt     int
	// live: the message object ToProto handed out, kept by the "network" until delivery: it is a
	// snapshot, whatever the producer does afterwards
	live *sketchpb.Store
}

type snode struct {
	kind  string
	n     int
	real  store.Store
	model *refmodel.RefStore
	// C15: fresh twin constructed at the last clear, fed the same events since.
	twin store.Store
	// C14: read-free replica Q (never read before the end of the run).
	replica store.Store
	// the other side(s) of every Copy this node took part in (C14 copy independence)
	peers        []int
	lay          layout
	maxDelivered int
}

type storeExec struct {
	xctx
	nodes map[int]*snode
	order []int
	msgs  map[int]*smsg
}

func isStoreObserved(prop, kind string) bool {
	switch prop {
	case "C04":
		return !refmodel.IsCollapsing(kind)
	case "C05":
		return refmodel.IsCollapsing(kind)
	}
	return true
}

// ExecStoreWorld executes a W-store plan with the oracle set of plan.Property.
func ExecStoreWorld(p *engine.Plan, st *engine.Stats) *engine.Violation {
	x := &storeExec{xctx: xctx{prop: p.Property, plan: p, st: st}, nodes: map[int]*snode{}, msgs: map[int]*smsg{}}
	setMapOrder(p.Cfg("maporder", "asc"), p.Seed^uint64(p.Run)*0x9E3779B97F4A7C15)
	defer setMapOrder("asc", 0)
	setSpanBudgets(p, 1<<16, 1<<22)
	return x.run(func() {
		for _, n := range p.Nodes {
			if n.Role != "store" {
				continue
			}
			x.addNode(n.ID, n.Store, n.N)
		}
		for i, e := range p.Events {
			x.at = i
			x.step(e)
			if t := e.T; t > st.SimTimeUs {
				st.SimTimeUs = t
			}
		}
		x.at = len(p.Events) - 1
		x.quiesce()
	})
}

func (x *storeExec) addNode(id int, kind string, n int) *snode {
	if _, ok := x.nodes[id]; ok || id <= 0 {
		return nil
	}
	switch kind {
	case refmodel.Dense, refmodel.Sparse, refmodel.Paginated:
		n = 0
	case refmodel.CLow, refmodel.CHigh:
		if n < 1 {
			n = 1
		}
	default:
		return nil
	}
	nd := &snode{kind: kind, n: n, real: newRealStore(kind, n), model: refmodel.NewRefStore(kind, n)}
	if x.prop == "C14" {
		nd.replica = newRealStore(kind, n)
	}
	nd.lay, _ = inspect(nd.real)
	x.nodes[id] = nd
	x.order = append(x.order, id)
	return nd
}

func (x *storeExec) sigFor(e engine.Event) string {
	s := e.Ev
	if e.S != "" {
		s += ":" + e.S
	}
	if n := x.nodes[e.N]; n != nil {
		s += "/" + n.kind
		if n.model.IsEmpty() {
			s += "(empty)"
		}
	}
	if e.Ev == "merge" {
		if m := x.nodes[e.M]; m != nil {
			s += "/" + m.kind
		}
	}
	return s
}

// each applies a mutation to the real store and to its shadows (twin, replica).
func (nd *snode) each(f func(s store.Store)) {
	f(nd.real)
	if nd.twin != nil {
		f(nd.twin)
	}
	if nd.replica != nil {
		f(nd.replica)
	}
}

func (x *storeExec) step(e engine.Event) {
	nd := x.nodes[e.N]
	if nd == nil {
		return
	}
	sig := x.sigFor(e)
	mutated := false
	x.partner = !isStoreObserved(x.prop, nd.kind)
	var peersBefore []*storeSnap
	if x.prop == "C14" && len(nd.peers) > 0 && isMutation(e.Ev) {
		for _, pid := range nd.peers {
			peersBefore = append(peersBefore, x.snapStore(x.nodes[pid].real, "peer-before"))
		}
	}
	defer func() {
		for i, before := range peersBefore {
			peer := x.nodes[nd.peers[i]]
			x.st.Oracle("copy-independent")
			after := x.snapStore(peer.real, "peer-after")
			if d := before.diff(after); d != "" {
				x.fail("copy-independent", sig, fmt.Sprintf("%s on one side of a copy changed the other side: %s", e.Ev, d), before.String(), after.String())
			}
		}
	}()
	switch e.Ev {
	case "fault":
		x.st.Fault(e.S)
		return
	case "add":
		if !inInt32(e.I) || !spanFitsAfter(nd.model, int(e.I), int(e.I)) || !nd.model.FitsAfter(1, 0) {
			return
		}
		nd.each(func(s store.Store) { x.lib("Add", sig, func() { s.Add(int(e.I)) }) })
		nd.model.Add(int(e.I), 1)
		mutated = true
	case "addw", "addbin":
		w := float64(e.W)
		g, ok := refmodel.GranOf(w)
		if !ok || !inInt32(e.I) || !nd.model.FitsAfter(w, g) {
			return
		}
		if w != 0 && !spanFitsAfter(nd.model, int(e.I), int(e.I)) {
			return
		}
		if e.Ev == "addbin" {
			var bin *store.Bin
			var err error
			x.lib("NewBin", sig, func() { bin, err = store.NewBin(int(e.I), w) })
			if err != nil {
				x.fail("accepts-valid-bin", sig, fmt.Sprintf("NewBin(%d,%v) refused: %v", e.I, w, err), "accepted", "error")
			}
			nd.each(func(s store.Store) { x.lib("AddBin", sig, func() { s.AddBin(*bin) }) })
		} else {
			nd.each(func(s store.Store) { x.lib("AddWithCount", sig, func() { s.AddWithCount(int(e.I), w) }) })
		}
		nd.model.Add(int(e.I), w)
		mutated = true
	case "addrun":
		if len(e.L) != 2 || e.L[1] <= 0 || e.J <= 0 || e.J > 400 {
			return
		}
		lo, hi := e.I, e.I+e.L[1]-1
		if !inInt32(lo) || !inInt32(hi) || !spanFitsAfter(nd.model, int(lo), int(hi)) || !nd.model.FitsAfter(float64(e.J), 0) {
			return
		}
		for t := int64(0); t < e.J; t++ {
			idx := int(e.I + ((t*e.L[0])%e.L[1]+e.L[1])%e.L[1])
			nd.each(func(s store.Store) { x.lib("Add", sig, func() { s.Add(idx) }) })
			nd.model.Add(idx, 1)
		}
		mutated = true
	case "merge":
		src := x.nodes[e.M]
		if src == nil || e.M == e.N {
			return
		}
		sb := src.model.Bins()
		if len(sb) > 0 && !spanFitsAfter(nd.model, sb[0].Index, sb[len(sb)-1].Index) {
			return
		}
		if !nd.model.FitsAfter(src.model.Total(), src.model.Gran) {
			return
		}
		var before *storeSnap
		if x.prop == "C14" {
			before = x.snapStore(src.real, "merge-arg-before")
		}
		x.lib("MergeWith", sig, func() { nd.real.MergeWith(src.real) })
		if nd.twin != nil {
			x.lib("MergeWith(twin)", sig, func() { nd.twin.MergeWith(src.real) })
		}
		if nd.replica != nil {
			x.lib("MergeWith(replica)", sig, func() { nd.replica.MergeWith(src.replica) })
		}
		if before != nil {
			x.st.Oracle("single-read-pure")
			after := x.snapStore(src.real, "merge-arg-after")
			if d := before.diff(after); d != "" {
				x.fail("single-read-pure", sig, "being the argument of MergeWith changed the store: "+d, before.String(), after.String())
			}
		}
		nd.model.MergeFrom(src.model)
		mutated = true
	case "copy":
		if _, exists := x.nodes[e.M]; exists || e.M <= 0 {
			return
		}
		var before *storeSnap
		if x.prop == "C14" {
			before = x.snapStore(nd.real, "copy-before")
		}
		c := &snode{kind: nd.kind, n: nd.n, model: nd.model.Clone()}
		x.lib("Copy", sig, func() { c.real = nd.real.Copy() })
		if nd.replica != nil {
			x.lib("Copy(replica)", sig, func() { c.replica = nd.replica.Copy() })
		}
		if nd.twin != nil {
			x.lib("Copy(twin)", sig, func() { c.twin = nd.twin.Copy() })
		}
		c.lay, _ = inspect(c.real)
		c.peers = append(append([]int(nil), nd.peers...), e.N)
		for _, pid := range nd.peers {
			x.nodes[pid].peers = append(x.nodes[pid].peers, e.M)
		}
		nd.peers = append(nd.peers, e.M)
		x.nodes[e.M] = c
		x.order = append(x.order, e.M)
		if before != nil {
			x.st.Oracle("copy-equals-original")
			after := x.snapStore(nd.real, "copy-after")
			if d := before.diff(after); d != "" {
				x.fail("single-read-pure", sig, "Copy changed the original: "+d, before.String(), after.String())
			}
			cs := x.snapStore(c.real, "copy-snapshot")
			if d := before.diff(cs); d != "" {
				x.fail("copy-equals-original", sig, "the copy differs from its original at the time of copying: "+d, before.String(), cs.String())
			}
		}
	case "clear":
		nd.each(func(s store.Store) { x.lib("Clear", sig, func() { s.Clear() }) })
		nd.model.Clear()
		if x.prop == "C15" {
			nd.twin = newRealStore(nd.kind, nd.n)
			x.st.Oracle("empty-after-clear")
			sn := x.snapStore(nd.real, "after-clear")
			if !sn.Empty || sn.Total != 0 || !sn.MinErr || !sn.MaxErr || len(sn.Bins) != 0 {
				x.fail("empty-after-clear", sig, "a cleared store is not empty", "empty, total 0, MinIndex/MaxIndex refuse, no bins", sn.String())
			}
		}
		mutated = true
	case "reweight":
		w := float64(e.W)
		if !(w > 0) || math.IsInf(w, 0) {
			return
		}
		fr, _ := math.Frexp(w)
		if fr != 0.5 { // powers of two only: exact
			return
		}
		probe := nd.model.Clone()
		probe.Scale(w)
		if probe.Gran < -45 || !probe.FitsAfter(0, 0) {
			return
		}
		var before *storeSnap
		if x.prop == "C16" {
			before = x.snapStore(nd.real, "reweight-before")
		}
		nd.each(func(s store.Store) {
			x.lib("Reweight", sig, func() {
				if err := s.Reweight(w); err != nil {
					x.fail("reweight-refused", sig, fmt.Sprintf("Reweight(%v) refused: %v", w, err), "accepted", "error")
				}
			})
		})
		nd.model.Scale(w)
		if before != nil {
			x.checkReweight(nd, before, w, sig)
		}
		mutated = true
	case "send":
		x.send(e, nd, sig)
	case "deliver":
		mutated = x.deliver(e, nd, sig)
	case "read":
		x.read(e, nd, sig)
	default:
		return
	}
	if mutated {
		x.afterMutation(e, nd, sig)
	}
}

// afterMutation counts layout events (reach probes), records abstract states
// and evaluates the per-event oracles of the active property.
func (x *storeExec) afterMutation(e engine.Event, nd *snode, sig string) {
	if l, ok := inspect(nd.real); ok {
		old := nd.lay
		st := x.st
		switch l.Kind {
		case "dense", "clow", "chigh":
			st.ProbeIf(l.ArrayLen > old.ArrayLen && old.ArrayLen > 0, "array-grew")
			st.ProbeIf(l.Offset < old.Offset && old.ArrayLen > 0, "array-shift-to-lower")
			st.ProbeIf(l.Offset > old.Offset && old.ArrayLen > 0, "array-shift-to-higher")
			st.ProbeIf(l.Collapsed && !old.Collapsed, "collapse-started")
			st.ProbeIf(l.Collapsed && old.Collapsed && (l.MinIndex != old.MinIndex || l.MaxIndex != old.MaxIndex), "collapse-window-moved")
			st.ProbeIf(old.ArrayLen > 0 && l.ArrayLen == 0, "array-reset-by-clear")
		case "paginated":
			st.ProbeIf(l.AllocatedPages > old.AllocatedPages, "page-created")
			st.ProbeIf(l.PageSlots > old.PageSlots && l.MinPageIndex < old.MinPageIndex && !old.PagesUnused, "pages-extended-left")
			st.ProbeIf(l.PageSlots > old.PageSlots && l.MinPageIndex == old.MinPageIndex && old.PageSlots > 0, "pages-extended-right")
			st.ProbeIf(l.CompactionTrigger != old.CompactionTrigger, "compaction-ran")
			st.ProbeIf(l.CompactionTrigger != old.CompactionTrigger && l.BufferLen < old.BufferLen, "compaction-moved-entries")
			st.ProbeIf(l.BufferLen > 0 && l.AllocatedPages > 0, "buffer-and-pages-both-used")
			st.ProbeIf(e.Ev == "deliver" && l.CompactionTrigger != old.CompactionTrigger, "decode-batch-triggered-compaction")
			st.ProbeIf(l.BufferLen > 64, "buffer-longer-than-64")
			st.ProbeIf(old.AllocatedPages > 0 && l.PagesUnused && !old.PagesUnused, "pages-retained-by-clear")
		}
		nd.lay = l
		h := engine.HashStr(0, l.Kind)
		h = engine.Hash64(h ^ uint64(log2class(l.ArrayLen))<<8 ^ uint64(log2class(l.BufferLen))<<16 ^ uint64(log2class(l.AllocatedPages))<<24)
		if l.Collapsed {
			h ^= 0x5555
		}
		if nd.model.IsEmpty() {
			h ^= 0xAAAA0000
		}
		h = engine.Hash64(h ^ uint64(log2class(len(nd.model.Exact)))<<32)
		x.st.State(h)
		x.st.StateOp(engine.HashStr(h, e.Ev+e.S))
	} else {
		h := engine.HashStr(0, nd.kind)
		lo, hi, _ := nd.model.RawSpan()
		h = engine.Hash64(h ^ uint64(log2class(hi-lo))<<8 ^ uint64(log2class(len(nd.model.Exact)))<<32)
		x.st.State(h)
		x.st.StateOp(engine.HashStr(h, e.Ev+e.S))
	}
	if x.partner {
		// a partner is not observed by the active property: whatever it really holds is, by
		// definition, what it contributes to later merges and messages (a defect in a partner
		// belongs to the property that owns its kind)
		sn := x.snapStore(nd.real, "partner-resync")
		nd.model.Exact = make(map[int]float64, len(sn.Bins))
		for _, b := range sn.Bins {
			nd.model.Exact[b.Index] = b.Count
		}
	}
	switch x.prop {
	case "C05":
		if refmodel.IsCollapsing(nd.kind) {
			x.checkBounds(nd, sig)
		}
	case "C15":
		if nd.twin != nil {
			x.checkTwin(nd, sig)
		}
	}
}

// ---- messages -------------------------------------------------------------

func (x *storeExec) send(e engine.Event, nd *snode, sig string) {
	id := int(e.J)
	if id <= 0 || x.msgs[id] != nil {
		return
	}
	var before *storeSnap
	if x.prop == "C14" {
		before = x.snapStore(nd.real, "send-before")
	}
	m := &smsg{form: e.S, content: nd.model.Bins(), gran: nd.model.Gran, tainted: nd.model.Tainted, sentAt: x.at}
	switch e.S {
	case "bin":
		pre := int(e.I)
		if pre < 0 || pre > 64 {
			pre = 0
		}
		buf := make([]byte, pre, pre+int(e.I%7)*16)
		for i := range buf {
			buf[i] = 0xA5
		}
		x.lib("Encode", sig, func() { nd.real.Encode(&buf, enc.FlagTypePositiveStore) })
		for i := 0; i < pre; i++ {
			if buf[i] != 0xA5 {
				x.fail("encode-append-only", sig, "Encode overwrote the caller's existing bytes", "prefix untouched", hex.EncodeToString(buf[:pre]))
			}
		}
		m.data = append([]byte(nil), buf[pre:]...)
	case "pb":
		var pb *sketchpb.Store
		x.lib("ToProto", sig, func() { pb = nd.real.ToProto() })
		b, err := proto.MarshalOptions{Deterministic: true}.Marshal(pb)
		if err != nil {
			panic(err)
		}
		m.data = b
		m.live = pb
	case "pbstream":
		var buf bytes.Buffer
		builder := sketchpb.NewStoreBuilder(&buf)
		x.lib("EncodeProto", sig, func() { nd.real.EncodeProto(builder) })
		m.data = append([]byte(nil), buf.Bytes()...)
	default:
		return
	}
	x.msgs[id] = m
	x.st.Probe("message-" + e.S)
	if before != nil {
		x.st.Oracle("single-read-pure")
		after := x.snapStore(nd.real, "send-after")
		if d := before.diff(after); d != "" {
			x.fail("single-read-pure", sig, "serialising ("+e.S+") changed the store: "+d, before.String(), after.String())
		}
	}
	if l, ok := inspect(nd.real); ok {
		nd.lay = l // Encode may compact the paginated store
	}
}

func (x *storeExec) deliver(e engine.Event, nd *snode, sig string) bool {
	m := x.msgs[int(e.J)]
	if m == nil {
		return false
	}
	if int(e.J) < nd.maxDelivered {
		x.st.Fault("reordered-delivery")
	}
	if int(e.J) > nd.maxDelivered {
		nd.maxDelivered = int(e.J)
	}
	m.deliveries++
	if m.deliveries > 1 {
		x.st.Fault("duplicate-delivery")
	}
	if m.sentAt < len(x.plan.Events) && x.at-m.sentAt > 1 {
		x.st.Fault("delayed-delivery")
	}
	if len(m.content) > 0 && !spanFitsAfter(nd.model, m.content[0].Index, m.content[len(m.content)-1].Index) {
		return false
	}
	tot := 0.0
	for _, b := range m.content {
		tot += b.Count
	}
	if !nd.model.FitsAfter(tot, m.gran) {
		return false
	}
	switch m.form {
	case "bin":
		nd.each(func(s store.Store) {
			b := append([]byte(nil), m.data...)
			for len(b) > 0 {
				var flag enc.Flag
				var err error
				x.lib("DecodeFlag", sig, func() { flag, err = enc.DecodeFlag(&b) })
				if err != nil || flag.Type() != enc.FlagTypePositiveStore {
					x.fail("decode-valid-encoding", sig, fmt.Sprintf("bad block flag %v (err %v) in a store encoding", flag, err), "positive-store flag", "other")
				}
				switch flag.SubFlag() {
				case enc.BinEncodingContiguousCounts:
					x.st.Probe("layout-contiguous")
				case enc.BinEncodingIndexDeltas:
					x.st.Probe("layout-index-deltas")
				case enc.BinEncodingIndexDeltasAndCounts:
					x.st.Probe("layout-deltas-and-counts")
				}
				x.lib("DecodeAndMergeWith", sig, func() { err = s.DecodeAndMergeWith(&b, flag.SubFlag()) })
				if err != nil {
					x.fail("decode-valid-encoding", sig, fmt.Sprintf("decoding a valid store encoding failed: %v", err), "nil error", err.Error())
				}
			}
		})
	case "pb", "pbstream":
		pb := &sketchpb.Store{}
		if err := proto.Unmarshal(m.data, pb); err != nil {
			x.fail("proto-unmarshal", sig, "bytes produced by the store do not unmarshal: "+err.Error(), "valid protobuf", hex.EncodeToString(m.data))
		}
		if m.live != nil && int(e.J)%2 == 0 {
			pb = m.live // the object itself travelled (in-process hand-over), not its bytes
			x.st.Probe("delivered-live-proto-object")
		}
		nd.each(func(s store.Store) {
			x.lib("MergeWithProto", sig, func() {
				if ps, ok := s.(*store.BufferedPaginatedStore); ok && x.prop == "C04" && int(e.J)%3 == 0 {
					ps.MergeWithProto(pb) // the paginated store's own method (not part of the Store interface)
					x.st.Probe("paginated-own-MergeWithProto")
				} else {
					store.MergeWithProto(s, pb)
				}
			})
		})
	}
	for _, b := range m.content {
		nd.model.Add(b.Index, b.Count)
	}
	if m.gran < nd.model.Gran {
		nd.model.Gran = m.gran
	}
	x.st.Probe("delivered-" + m.form)
	return true
}

// ---- observers and oracles --------------------------------------------------

func (x *storeExec) read(e engine.Event, nd *snode, sig string) {
	var before *storeSnap
	if x.prop == "C14" && e.S != "all" {
		before = x.snapStore(nd.real, "read-before")
	}
	s := nd.real
	switch e.S {
	case "all":
		x.observe(nd, sig, true)
	case "total":
		x.lib("TotalCount", sig, func() { x.st.Note(math.Float64bits(s.TotalCount())) })
		x.lib("IsEmpty", sig, func() { s.IsEmpty() })
	case "minmax":
		x.lib("MinIndex", sig, func() { s.MinIndex() })
		x.lib("MaxIndex", sig, func() { s.MaxIndex() })
	case "foreach", "stop":
		k := int(e.I)
		calls := 0
		stopped := false
		x.lib("ForEach", sig, func() {
			s.ForEach(func(index int, count float64) bool {
				if stopped {
					x.fail("foreach-stop", sig, "ForEach called the function again after it returned true", "no further call", "called")
				}
				calls++
				if e.S == "stop" && calls > k {
					stopped = true
					return true
				}
				return false
			})
		})
	case "bins":
		x.lib("Bins", sig, func() {
			for range s.Bins() {
			}
		})
	case "rank":
		r := float64(e.I) * math.Ldexp(1, nd.model.Gran)
		x.lib("KeyAtRank", sig, func() { x.st.Note(uint64(int64(s.KeyAtRank(r)))) })
	}
	if before != nil {
		x.st.Oracle("single-read-pure")
		after := x.snapStore(nd.real, "read-after")
		if d := before.diff(after); d != "" {
			x.fail("single-read-pure", sig, "read "+e.S+" changed the store: "+d, before.String(), after.String())
		}
	}
	if l, ok := inspect(nd.real); ok {
		nd.lay = l
	}
}

// observe compares every observer of a store with the reference model
// (C04: exact map; C05: folded view). full also probes KeyAtRank and Bins().
func (x *storeExec) observe(nd *snode, sig string, full bool) {
	if !isStoreObserved(x.prop, nd.kind) || (x.prop != "C04" && x.prop != "C05") {
		return
	}
	content := "content-foreach"
	if x.prop == "C05" {
		content = "folded-content"
	}
	want := nd.model.Bins()
	sn := x.snapStore(nd.real, "observe")
	x.st.Note(sn.hash())
	wantTotal := 0.0
	for _, b := range want {
		wantTotal += b.Count
	}
	x.st.Oracle(content)
	if sn.Dup != "" {
		x.fail(content, sig, "iteration anomaly: "+sn.Dup, "each non-empty index once with positive weight", sn.Dup)
	}
	if d := refmodel.DiffBins(want, sn.Bins); d != "" {
		x.fail(content, sig, "content differs from the reference map: "+d, refmodel.BinsString(want), refmodel.BinsString(sn.Bins))
	}
	totalOracle := "total"
	if x.prop == "C05" {
		totalOracle = "weight-conserved"
	}
	x.st.Oracle(totalOracle)
	if sn.Total != wantTotal {
		x.fail(totalOracle, sig, "TotalCount differs from the exact total", fmt.Sprint(wantTotal), fmt.Sprint(sn.Total))
	}
	x.st.Oracle("empty")
	if sn.Empty != (len(want) == 0) {
		x.fail("empty", sig, "IsEmpty is wrong", fmt.Sprint(len(want) == 0), fmt.Sprint(sn.Empty))
	}
	x.st.Oracle("min-max-index")
	if len(want) == 0 {
		if !sn.MinErr || !sn.MaxErr {
			x.fail("min-max-index", sig, "MinIndex/MaxIndex of an empty store must return an error", "errors", sn.String())
		}
	} else {
		if sn.MinErr || sn.MaxErr || sn.Min != want[0].Index || sn.Max != want[len(want)-1].Index {
			x.fail("min-max-index", sig, "MinIndex/MaxIndex differ from the extreme non-empty indexes",
				fmt.Sprintf("min=%d max=%d", want[0].Index, want[len(want)-1].Index), fmt.Sprintf("min=%d(err=%v) max=%d(err=%v)", sn.Min, sn.MinErr, sn.Max, sn.MaxErr))
		}
	}
	if x.prop == "C05" {
		x.checkBounds(nd, sig)
	}
	if !full {
		return
	}
	// bin stream, fully drained
	x.st.Oracle("content-binstream")
	var streamed []refmodel.RefBin
	x.lib("Bins", sig, func() {
		for b := range nd.real.Bins() {
			streamed = append(streamed, refmodel.RefBin{Index: b.Index(), Count: b.Count()})
		}
	})
	seen := map[int]bool{}
	for _, b := range streamed {
		if seen[b.Index] || !(b.Count > 0) {
			x.fail("content-binstream", sig, fmt.Sprintf("bin stream yields index %d twice or with non-positive weight %v", b.Index, b.Count), "each index once, weight > 0", refmodel.BinsString(streamed))
		}
		seen[b.Index] = true
	}
	sort.SliceStable(streamed, func(i, j int) bool { return streamed[i].Index < streamed[j].Index })
	if d := refmodel.DiffBins(want, streamed); d != "" {
		x.fail("content-binstream", sig, "bin stream differs from the reference map: "+d, refmodel.BinsString(want), refmodel.BinsString(streamed))
	}
	// rank lookups at every cumulative boundary, one granule below, mid-bin, below zero and beyond the total
	if len(want) == 0 {
		return
	}
	x.st.Oracle("key-at-rank")
	gran := math.Ldexp(1, nd.model.Gran)
	ranks := []float64{-1, -gran, 0, wantTotal, wantTotal + 1, wantTotal - gran, wantTotal * 2}
	cum := 0.0
	limit := len(want)
	stride := 1
	if limit > 48 {
		stride = limit / 48
	}
	for i, b := range want {
		prev := cum
		cum += b.Count
		if i%stride != 0 && i != len(want)-1 {
			continue
		}
		ranks = append(ranks, cum, cum-gran, prev+b.Count/2, prev)
	}
	for _, r := range ranks {
		wantKey, _ := refmodel.KeyAtRank(want, r)
		var got int
		x.lib("KeyAtRank", sig, func() { got = nd.real.KeyAtRank(r) })
		if got != wantKey {
			x.fail("key-at-rank", sig, fmt.Sprintf("KeyAtRank(%v) is not the first index whose cumulative weight exceeds the rank", r),
				fmt.Sprintf("%d (content %s)", wantKey, refmodel.BinsString(want)), fmt.Sprint(got))
		}
	}
	x.st.Probe("rank-on-cumulative-boundary")
}

// checkBounds: C05 — never more than N bins, never a span above N, and (with
// the hook) never an array longer than N.
func (x *storeExec) checkBounds(nd *snode, sig string) {
	var nonEmpty, lo, hi int
	first := true
	x.lib("ForEach", sig, func() {
		nd.real.ForEach(func(index int, count float64) bool {
			nonEmpty++
			if first || index < lo {
				lo = index
			}
			if first || index > hi {
				hi = index
			}
			first = false
			return false
		})
	})
	x.st.Oracle("bin-bound")
	if nonEmpty > nd.n {
		x.fail("bin-bound", sig, fmt.Sprintf("store with bin limit %d holds %d bins", nd.n, nonEmpty), fmt.Sprintf("<= %d", nd.n), fmt.Sprint(nonEmpty))
	}
	x.st.Oracle("span-bound")
	if !first && hi-lo+1 > nd.n {
		x.fail("span-bound", sig, fmt.Sprintf("store with bin limit %d spans indexes %d..%d", nd.n, lo, hi), fmt.Sprintf("span <= %d", nd.n), fmt.Sprint(hi-lo+1))
	}
	var mn, mx int
	var e1, e2 error
	x.lib("MinIndex", sig, func() { mn, e1 = nd.real.MinIndex() })
	x.lib("MaxIndex", sig, func() { mx, e2 = nd.real.MaxIndex() })
	if e1 == nil && e2 == nil && mx-mn+1 > nd.n {
		x.fail("span-bound", sig, fmt.Sprintf("store with bin limit %d reports MinIndex %d and MaxIndex %d", nd.n, mn, mx), fmt.Sprintf("span <= %d", nd.n), fmt.Sprint(mx-mn+1))
	}
	if l, ok := inspect(nd.real); ok {
		x.st.Oracle("array-bound")
		if l.ArrayLen > nd.n {
			x.fail("array-bound", sig, fmt.Sprintf("store with bin limit %d allocated an array of %d bins", nd.n, l.ArrayLen), fmt.Sprintf("<= %d", nd.n), fmt.Sprint(l.ArrayLen))
		}
	}
	if _, folded := nd.model.Edge(); folded {
		x.st.Probe("content-actually-folded")
	}
}

// checkTwin: C15 — a cleared store and a freshly constructed one, given the
// same history since, answer every observer identically.
func (x *storeExec) checkTwin(nd *snode, sig string) {
	x.st.Oracle("fresh-twin")
	a := x.snapStore(nd.real, "cleared")
	b := x.snapStore(nd.twin, "fresh")
	x.st.Note(a.hash())
	if d := a.diff(b); d != "" {
		x.fail("fresh-twin", sig, "a cleared, re-used store differs from a fresh one after the same history: "+d, "fresh: "+b.String(), "cleared: "+a.String())
	}
	if len(a.Bins) > 0 {
		for _, r := range []float64{0, a.Total / 2, a.Total - math.Ldexp(1, nd.model.Gran), a.Bins[0].Count} {
			var ka, kb int
			x.lib("KeyAtRank", sig, func() { ka = nd.real.KeyAtRank(r) })
			x.lib("KeyAtRank", sig, func() { kb = nd.twin.KeyAtRank(r) })
			if ka != kb {
				x.fail("fresh-twin", sig, fmt.Sprintf("KeyAtRank(%v) differs between a cleared and a fresh store", r), fmt.Sprint(kb), fmt.Sprint(ka))
			}
		}
		x.st.Probe("twin-compared-non-empty")
	}
}

// checkReweight: C16 — every bin and the total scale by w (a power of two
// inside the exactness budget, so `==`), no bin appears or disappears.
func (x *storeExec) checkReweight(nd *snode, before *storeSnap, w float64, sig string) {
	after := x.snapStore(nd.real, "reweight-after")
	x.st.Note(after.hash())
	x.st.Oracle("bins-scaled")
	if w == 1 {
		x.st.Oracle("unit-factor-noop")
		if d := before.diff(after); d != "" {
			x.fail("unit-factor-noop", sig, "Reweight(1) changed the store: "+d, before.String(), after.String())
		}
		return
	}
	if len(before.Bins) != len(after.Bins) {
		x.fail("support-unchanged", sig, "Reweight made a bin appear or disappear", refmodel.BinsString(before.Bins), refmodel.BinsString(after.Bins))
	}
	for i := range before.Bins {
		if before.Bins[i].Index != after.Bins[i].Index {
			x.fail("support-unchanged", sig, "Reweight changed the set of non-empty indexes", refmodel.BinsString(before.Bins), refmodel.BinsString(after.Bins))
		}
		if after.Bins[i].Count != before.Bins[i].Count*w {
			x.fail("bins-scaled", sig, fmt.Sprintf("bin %d: weight %v did not become %v", before.Bins[i].Index, before.Bins[i].Count, before.Bins[i].Count*w),
				fmt.Sprint(before.Bins[i].Count*w), fmt.Sprint(after.Bins[i].Count))
		}
	}
	x.st.Oracle("zero-and-count-scaled")
	if after.Total != before.Total*w {
		x.fail("zero-and-count-scaled", sig, "total weight did not scale by the factor", fmt.Sprint(before.Total*w), fmt.Sprint(after.Total))
	}
	if l, ok := inspect(nd.real); ok && l.Kind == "paginated" {
		x.st.ProbeIf(nd.lay.BufferLen > 0, "reweight-with-buffered-entries")
		x.st.ProbeIf(nd.lay.BufferLen > 0 && nd.lay.AllocatedPages > 0, "reweight-with-buffer-and-pages")
	}
}

// quiesce runs at the end of every plan: final observation of every node and
// the end-of-run oracles (C14's read-free replica).
func (x *storeExec) quiesce() {
	ids := append([]int(nil), x.order...)
	sort.Ints(ids)
	for _, id := range ids {
		nd := x.nodes[id]
		sig := "quiesce/" + nd.kind
		switch x.prop {
		case "C04", "C05":
			x.observe(nd, sig, true)
		case "C14":
			x.st.Oracle("read-free-replica")
			if id%2 == 0 {
				// the never-read replica's very first read is the bin stream (no other observer has had
				// a chance to reorganise it): it must be the stream the read replica gives
				drain := func(s store.Store) (out []refmodel.RefBin) {
					x.lib("Bins", sig, func() {
						for b := range s.Bins() {
							out = append(out, refmodel.RefBin{Index: b.Index(), Count: b.Count()})
						}
					})
					return
				}
				qb, rb := drain(nd.replica), drain(nd.real)
				if d := refmodel.DiffBins(rb, qb); d != "" {
					x.fail("read-free-replica", sig, "the bin stream of a never-read store differs from that of its replica that was read between mutations: "+d, "R: "+refmodel.BinsString(rb), "Q: "+refmodel.BinsString(qb))
				}
				x.st.Probe("first-read-is-the-bin-stream")
			}
			r := x.snapStore(nd.real, "R")
			q := x.snapStore(nd.replica, "Q")
			x.st.Note(r.hash())
			if d := r.diff(q); d != "" {
				x.fail("read-free-replica", sig, "a store that was read between mutations differs from a replica that was never read: "+d, "Q: "+q.String(), "R: "+r.String())
			}
			if len(r.Bins) > 0 {
				for _, rank := range []float64{0, r.Total / 2, r.Total - 1} {
					var ka, kb int
					x.lib("KeyAtRank", sig, func() { ka = nd.real.KeyAtRank(rank) })
					x.lib("KeyAtRank", sig, func() { kb = nd.replica.KeyAtRank(rank) })
					if ka != kb {
						x.fail("read-free-replica", sig, fmt.Sprintf("KeyAtRank(%v) differs between the read and the never-read replica", rank), fmt.Sprint(kb), fmt.Sprint(ka))
					}
				}
			}
		case "C15":
			if nd.twin != nil {
				x.checkTwin(nd, sig)
			}
		}
	}
}

func isMutation(ev string) bool {
	switch ev {
	case "add", "addw", "addbin", "addrun", "merge", "clear", "reweight", "deliver":
		return true
	}
	return false
}
