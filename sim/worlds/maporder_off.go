//go:build !maporder

package worlds

// Without the overlay the Go runtime decides map iteration order.
const mapOrderSeam = false

func setMapOrder(mode string, salt uint64) {}
