//go:build maporder

package worlds

import (
	"sort"

	"github.com/DataDog/sketches-go/ddsketch/store"

	"verif/sim/engine"
)

// The map-order seam: the overlay build (tools/maporder) rewrites every
// `range <map>` of the library so that the key order is taken from
// store.VerifMapOrder. Modes: asc, desc, keyed (a function of the key set and
// the run's salt, stable across loops), shuffle (fresh order per loop, from a
// counter-based hash — allowed only in the exact weight regime).
const mapOrderSeam = true

var shuffleCounter uint64

func setMapOrder(mode string, salt uint64) {
	shuffleCounter = 0
	switch mode {
	case "desc":
		store.VerifMapOrder = func(keys []int) {
			sort.Sort(sort.Reverse(sort.IntSlice(keys)))
		}
	case "keyed":
		store.VerifMapOrder = func(keys []int) {
			sort.Slice(keys, func(i, j int) bool {
				hi, hj := engine.Hash64(uint64(int64(keys[i]))^salt), engine.Hash64(uint64(int64(keys[j]))^salt)
				if hi != hj {
					return hi < hj
				}
				return keys[i] < keys[j]
			})
		}
	case "shuffle":
		store.VerifMapOrder = func(keys []int) {
			shuffleCounter++
			s := salt ^ engine.Hash64(shuffleCounter)
			sort.Slice(keys, func(i, j int) bool {
				hi, hj := engine.Hash64(uint64(int64(keys[i]))^s), engine.Hash64(uint64(int64(keys[j]))^s)
				if hi != hj {
					return hi < hj
				}
				return keys[i] < keys[j]
			})
		}
	default:
		store.VerifMapOrder = nil // ascending
	}
}
