package worlds

import (
	"encoding/hex"
	"math"
	"sort"

	"verif/sim/engine"
	"verif/sim/refmodel"
)

var realStoreComponents = []string{"ddsketch/store (all five stores, real code)", "ddsketch/encoding", "ddsketch/pb/sketchpb", "google.golang.org/protobuf"}
var stubStoreComponents = []string{"store owners (seeded actors with think times)", "byte links with latency, duplication and loss", "caller buffer pool"}

func init() {
	engine.Register(&engine.Prop{
		ID: "C04", Level: "exploration", World: "store",
		QuickRuns: 20000, ThoroughRuns: 1500000,
		Generate:   GenStoreWorld("C04"),
		Execute:    ExecStoreWorld,
		NonTrivial: nonTrivialStore,
		Rule: "seeded store-bench simulations (1-4 live stores, owners with think times, byte links with latency/dup/loss); " +
			"distinct = distinct schedule signature (sequence of event kind, mode and store kinds of the nodes involved, arguments abstracted); " +
			"non-trivial = at least 3 mutations and at least one merge, delivery, clear, copy or reweight",
		Real: realStoreComponents, Stub: stubStoreComponents,
		Assumptions: []string{
			"weights are dyadic and inside the exactness budget (DESIGN 4.3), so float sums are order independent and compared with ==",
			"index spans are bounded per store kind (dense 2^16, paginated 2^22) by the executor",
			"a clean batch is evidence, not proof: histories and index/weight values are sampled",
		},
	})
	c05gen, c05exec, c05nt := twoWorlds(GenFleet(&fleetProfile{prop: "C05", stores: []string{refmodel.CLow, refmodel.CHigh, refmodel.CLow, refmodel.CHigh, refmodel.Dense}, roles: []string{"sketch"}, minNodes: 1, maxNodes: 3, shareMap: true,
		weights: []string{"unit"}, valueSigns: []string{"pos", "neg", "mixed", "zeros"},
		ops:   map[string]int{"add": 40, "burst": 15, "merge": 8, "copy": 2, "clear": 3, "send": 5, "query": 25},
		forms: []string{"bin", "pb"}, modes: []string{"merge", "fresh"}, queryEvery: 25, maxOps: 150}), GenStoreWorld("C05"))
	engine.Register(&engine.Prop{
		ID: "C05", Level: "exploration", World: "store+fleet",
		QuickRuns: 24000, ThoroughRuns: 1500000,
		Generate: func(r *engine.PRNG, run int, tier string) *engine.Plan { // two thirds store bench, one third sketch pipeline
			if run%3 != 0 {
				return c05gen(r, 2, tier)
			}
			return c05gen(r, 0, tier)
		},
		Execute:    c05exec,
		NonTrivial: c05nt,
		Rule: "two thirds seeded store-bench simulations with at least one collapsing store (bin limits 1..2048) and partners of any kind, one third sketch pipelines on collapsing stores with quantile queries (accuracy of every quantile whose order statistics sit in retained bins); " +
			"distinct = distinct schedule signature; non-trivial = at least 3 mutations and at least one merge, delivery, clear, copy or reweight",
		Real: realStoreComponents, Stub: stubStoreComponents,
		Assumptions: []string{
			"weights are dyadic and inside the exactness budget (DESIGN 4.3)",
			"the reference is the exact content folded at the collapsing edge (max-N+1 / min+N-1), as the property states",
			"a clean batch is evidence, not proof",
		},
	})
}

var realFleetComponents = []string{"ddsketch (DDSketch, DDSketchWithExactSummaryStatistics: real code)", "ddsketch/store (all five stores)", "ddsketch/mapping (all three mappings)", "ddsketch/encoding", "ddsketch/stat", "ddsketch/pb/sketchpb", "google.golang.org/protobuf"}
var stubFleetComponents = []string{"agents, aggregators, readers and bad clients (seeded actors with think times)", "transport: links with latency, re-ordering, duplication, loss, concatenation", "caller buffer pool with canaries", "io.Writer of the streaming protobuf encoder", "simulated clock (orders events only; the library reads no clock)"}

var plainKinds = []string{refmodel.Dense, refmodel.Sparse, refmodel.Paginated}
var allKinds = []string{refmodel.Dense, refmodel.Sparse, refmodel.Paginated, refmodel.CLow, refmodel.CHigh}

const exactAssumption = "weights are dyadic and inside the exactness budget (DESIGN 4.3), so every == comparison is on exactly representable sums"
const sampleAssumption = "a clean batch is evidence, not proof: values, weights, quantiles and histories are sampled by the seeded generator"
const distinctRule = "distinct = distinct schedule signature (sequence of event kind, mode, role and store kind of the nodes involved; arguments abstracted)"

func badClient(g *fleetGen) {
	r := g.r
	var act func()
	left := r.Range(2, 14)
	act = func() {
		if left <= 0 {
			return
		}
		left--
		n := g.nodes[r.Intn(len(g.nodes))]
		maxv := n.m.MaxIndexableValue()
		switch r.Pick(40, 25, 12, 10, 13) {
		case 0:
			v := []float64{math.NaN(), math.Inf(1), math.Inf(-1), math.MaxFloat64, -math.MaxFloat64, nudge(maxv, 1), -nudge(maxv, 1), maxv * 2, -maxv * 1.0001, 1, -3, maxv / 2, -maxv / 1e3, maxv * (1 - 1e-9)}[r.Intn(14)]
			w := []float64{1, 1, 2, 0.5, -1, -0.25, -1e300, math.Inf(-1)}[r.Intn(8)]
			g.emit(engine.Event{Ev: "badreq", N: n.id, S: "add", V: engine.F64(v), W: engine.F64(w), I: int64(r.Intn(2))})
		case 1:
			q := []float64{math.NaN(), -1e-300, math.Nextafter(0, -1), nudge(1, 1), 1.5, -1, math.Inf(1), math.Inf(-1), 2, 0.5, 0, 1}[r.Intn(12)]
			g.emit(engine.Event{Ev: "badreq", N: n.id, S: "quantile", Q: []engine.F64{engine.F64(q)}})
		case 2:
			if len(g.nodes) > 1 {
				m := g.nodes[r.Intn(len(g.nodes))]
				g.emit(engine.Event{Ev: "badreq", N: n.id, M: m.id, S: "merge"})
			}
		case 3:
			w := []float64{0, math.Copysign(0, -1), -1, -0.5, -1e-300, math.Inf(-1)}[r.Intn(6)]
			g.emit(engine.Event{Ev: "badreq", N: n.id, S: "reweight", W: engine.F64(w)})
		default:
			if r.Pct(25) {
				g.emit(engine.Event{Ev: "decayq", N: n.id})
				break
			}
			which := r.Intn(9)
			var v float64
			if which < 6 {
				v = []float64{0, 1, -0.1, 1.5, nudge(1, -1), math.SmallestNonzeroFloat64, 0.5, 1e-6, 0.99, math.Inf(1), -math.MaxFloat64, 2}[r.Intn(12)]
			} else {
				v = []float64{1, nudge(1, 1), 0.5, 0, -2, 1.02, 2, 1e300, nudge(1, -1)}[r.Intn(9)]
			}
			g.emit(engine.Event{Ev: "badreq", S: "ctor", V: engine.F64(v), W: engine.F64(float64(r.Range(-50, 50))), I: int64(which)})
		}
		g.q.After(int64(r.Range(1, 1500)), act)
	}
	g.q.After(int64(r.Range(0, 800)), act)
}

func init() {
	engine.Register(&engine.Prop{
		ID: "C01", Level: "exploration", World: "fleet",
		QuickRuns: 20000, ThoroughRuns: 1500000,
		Generate: GenFleet(&fleetProfile{prop: "C01", stores: plainKinds, roles: []string{"sketch", "sketch", "sketch", "exact"}, minNodes: 1, maxNodes: 2,
			weights: []string{"unit"}, valueSigns: []string{"pos", "pos", "neg", "mixed", "mixed", "zeros", "zeroneg"},
			ops: map[string]int{"add": 40, "burst": 10, "copy": 3, "clear": 3, "query": 25}, queryEvery: 25, maxOps: 200}),
		Execute:    ExecFleet,
		NonTrivial: nonTrivialFleet(2, "query"),
		Rule:       "seeded single-sketch simulations: values arrive one at a time with queries interleaved at every density; " + distinctRule + "; non-trivial = at least 2 mutations and a query",
		Real:       realFleetComponents, Stub: stubFleetComponents,
		Assumptions: []string{"the oracle uses only the configured alpha, the absorbed values and exact rank arithmetic; margin 1e-11 relative (DESIGN 4.4)", sampleAssumption},
	})
	engine.Register(&engine.Prop{
		ID: "C11", Level: "exploration", World: "fleet",
		QuickRuns: 20000, ThoroughRuns: 1500000,
		Generate: GenFleet(&fleetProfile{prop: "C11", stores: plainKinds, roles: []string{"sketch", "sketch", "exact"}, minNodes: 1, maxNodes: 3, shareMap: true,
			weights: []string{"tiny", "tiny", "wide", "frac"}, valueSigns: []string{"pos", "pos", "neg", "mixed", "mixed", "zeros"},
			ops: map[string]int{"add": 4, "addw": 40, "reweight": 8, "merge": 6, "copy": 2, "clear": 2, "query": 30, "chmap": 2}, queryEvery: 30, maxOps: 120}),
		Execute:    ExecFleet,
		NonTrivial: nonTrivialFleet(2, "query"),
		Rule:       "seeded simulations of weighted sketches (dyadic weights, total weight from 2^-10, reached by weighted adds, merges and re-weighting); " + distinctRule + "; non-trivial = at least 2 mutations and a query",
		Real:       realFleetComponents, Stub: stubFleetComponents,
		Assumptions: []string{"ranks q*(W-1) and cumulative weights are evaluated in exact rational arithmetic; window slack 1e-9*(W+1)", exactAssumption, sampleAssumption},
	})
	engine.Register(&engine.Prop{
		ID: "C12", Level: "exploration", World: "fleet",
		QuickRuns: 12000, ThoroughRuns: 1000000,
		Generate: GenFleet(&fleetProfile{prop: "C12", stores: allKinds, roles: []string{"sketch"}, minNodes: 1, maxNodes: 4, shareMap: true,
			weights: []string{"unit", "int", "int", "frac", "tiny"}, valueSigns: []string{"pos", "neg", "mixed", "zeros", "zeroneg"},
			ops:   map[string]int{"add": 30, "addw": 15, "burst": 5, "merge": 10, "copy": 3, "clear": 4, "reweight": 3, "send": 8, "query": 10},
			forms: []string{"bin", "binomit", "pb", "pbstream"}, modes: []string{"merge", "fresh", "reuse"}, queryEvery: 10, maxOps: 120}),
		Execute:    ExecFleet,
		NonTrivial: nonTrivialFleet(3),
		Rule:       "seeded pipeline simulations with the coherence invariants evaluated after every event on the node it touched; " + distinctRule + "; non-trivial = at least 3 mutations",
		Real:       realFleetComponents, Stub: stubFleetComponents,
		Assumptions: []string{"weight regimes: unit, integer, dyadic fractions and totals below one", exactAssumption, sampleAssumption},
	})
	engine.Register(&engine.Prop{
		ID: "C13", Level: "exploration", World: "fleet",
		QuickRuns: 12000, ThoroughRuns: 1000000,
		Generate: GenFleet(&fleetProfile{prop: "C13", stores: allKinds, roles: []string{"sketch", "exact"}, minNodes: 1, maxNodes: 3, shareMap: true, intruder: true,
			weights: []string{"unit", "int", "frac"}, valueSigns: []string{"pos", "neg", "mixed", "zeros"},
			ops: map[string]int{"add": 30, "addw": 15, "copy": 2, "clear": 6, "reweight": 2}, queryEvery: 0, maxOps: 60, extra: badClient}),
		Execute: ExecFleet,
		NonTrivial: func(p *engine.Plan) bool {
			for _, e := range p.Events {
				if e.Ev == "badreq" {
					return true
				}
			}
			return false
		},
		Rule: "seeded simulations with a bad client issuing invalid requests at arbitrary moments of the history; " + distinctRule + "; non-trivial = at least one invalid request",
		Real: realFleetComponents, Stub: stubFleetComponents,
		Assumptions: []string{"NaN weights, factors and constructor parameters, and a weight of exactly 0 with an invalid value, are outside the documented contract and not generated", sampleAssumption},
	})
}

// foreignNode is the C07 actor that sends grammar-generated streams and
// re-orders / repeats whole blocks of messages in flight.
func foreignNode(g *fleetGen) {
	r := g.r
	left := r.Range(1, 8)
	var act func()
	act = func() {
		if left <= 0 {
			return
		}
		left--
		n := g.nodes[r.Intn(len(g.nodes))]
		id := g.nextMsg
		g.nextMsg++
		if len(g.binMsgs) > 0 && r.Pct(40) {
			src := g.binMsgs[r.Intn(len(g.binMsgs))]
			k := r.Range(1, 10)
			perm := make([]int64, k)
			for i := range perm {
				perm[i] = int64(r.Intn(12))
			}
			if r.Pct(50) { // a pure permutation of up to 12 blocks
				perm = perm[:0]
				for i := 0; i < 12; i++ {
					perm = append(perm, int64(i))
				}
				for i := len(perm) - 1; i > 0; i-- {
					j := r.Intn(i + 1)
					perm[i], perm[j] = perm[j], perm[i]
				}
			}
			g.emit(engine.Event{Ev: "blockperm", J: int64(id), I: int64(src), L: perm})
			n = g.msgOwner[src]
		} else {
			g.emit(engine.Event{Ev: "foreign", N: n.id, J: int64(id), B: hex.EncodeToString(g.foreignStream(n))})
			g.binMsgs = append(g.binMsgs, id)
			g.msgOwner[id] = n
		}
		g.msgForms[id] = "foreign"
		for d := r.Range(1, 3); d > 0; d-- {
			dst := g.sameMapping(n)
			mode := g.prof.modes[r.Intn(len(g.prof.modes))]
			g.q.After(int64(r.Range(1, 2000)), func() {
				g.emit(engine.Event{Ev: "deliver", N: dst.id, J: int64(id), S: mode, I: int64(g.r.Intn(2))})
			})
		}
		g.q.After(int64(r.Range(1, 1500)), act)
	}
	g.q.After(int64(r.Range(0, 500)), act)
}

func sweepAfterSend(g *fleetGen, n *fgNode, msg int, form string) {
	if form != "bin" && form != "binomit" {
		return
	}
	r := g.r
	for k := r.Range(1, 2); k > 0; k-- {
		g.emit(engine.Event{Ev: "sweep", N: g.sameMapping(n).id, J: int64(msg)})
	}
	if o := g.otherMapping(n); o != nil && form == "bin" {
		g.emit(engine.Event{Ev: "mismatch", N: o.id, J: int64(msg)})
	}
}

func init() {
	engine.Register(&engine.Prop{
		ID: "C06", Level: "exploration", World: "fleet",
		QuickRuns: 10000, ThoroughRuns: 1000000,
		Generate: GenFleet(&fleetProfile{prop: "C06", stores: allKinds, roles: []string{"sketch", "sketch", "exact"}, minNodes: 1, maxNodes: 4, shareMap: true, ultrafine: true,
			weights: []string{"unit", "int", "frac", "fine"}, valueSigns: []string{"pos", "neg", "mixed", "zeros"},
			ops:   map[string]int{"add": 30, "addw": 15, "burst": 6, "merge": 3, "copy": 2, "clear": 4, "reweight": 2, "send": 25, "query": 2},
			forms: []string{"bin", "bin", "binomit"}, modes: []string{"merge", "fresh", "reuse"}, queryEvery: 0, maxOps: 120, concat: true}),
		Execute:    ExecFleet,
		NonTrivial: nonTrivialFleet(2, "send", "deliver"),
		Rule:       "seeded pipeline simulations over the binary wire (mapping embedded or omitted, caller buffers with prefix, spare capacity and canaries; frames delayed, re-ordered, duplicated, dropped and concatenated; decoding into live, fresh and cleared-and-re-used sketches of every store kind); " + distinctRule + "; non-trivial = at least 2 mutations, a send and a delivery",
		Real:       realFleetComponents, Stub: stubFleetComponents,
		Assumptions: []string{exactAssumption + "; generated weights survive the documented +1/-1 transform of the varfloat codec", sampleAssumption},
	})
	engine.Register(&engine.Prop{
		ID: "C07", Level: "exploration", World: "fleet",
		QuickRuns: 10000, ThoroughRuns: 1000000,
		Generate: GenFleet(&fleetProfile{prop: "C07", stores: allKinds, roles: []string{"sketch", "sketch", "exact"}, minNodes: 1, maxNodes: 4, shareMap: true, ultrafine: true,
			weights: []string{"unit", "int", "frac", "fine"}, valueSigns: []string{"pos", "neg", "mixed", "zeros"},
			ops:   map[string]int{"add": 30, "addw": 15, "burst": 6, "merge": 3, "clear": 3, "send": 25},
			forms: []string{"bin", "bin", "binomit"}, modes: []string{"merge", "fresh", "reuse"}, queryEvery: 0, maxOps: 80, extra: foreignNode}),
		Execute:    ExecFleet,
		NonTrivial: nonTrivialFleet(1, "deliver"),
		Rule:       "seeded pipeline simulations with a foreign node (independent codec written from the format documentation) that decodes every encoding the implementation produces, sends grammar-generated streams (three layouts, negative/zero/large strides, repeated blocks and indexes, statistics blocks, any block order) and re-orders or repeats whole blocks in flight; " + distinctRule + "; non-trivial = at least one mutation and one delivery",
		Real:       realFleetComponents, Stub: append([]string{"foreign node: DocCodec, an independent implementation of the wire format from flag.go / encoding.go comments (math/big arithmetic)"}, stubFleetComponents...),
		Assumptions: []string{"the documentation decoder (refmodel/doccodec.go) is the oracle for the meaning of a stream", exactAssumption, sampleAssumption},
	})
	engine.Register(&engine.Prop{
		ID: "C08", Level: "fault_enumeration", World: "fleet",
		QuickRuns: 500, ThoroughRuns: 40000,
		Generate: GenFleet(&fleetProfile{prop: "C08", stores: allKinds, roles: []string{"sketch", "sketch", "exact"}, minNodes: 1, maxNodes: 3, shareMap: true, intruder: true,
			weights: []string{"unit", "int", "frac", "fine"}, valueSigns: []string{"pos", "neg", "mixed", "zeros"},
			ops:   map[string]int{"add": 30, "addw": 15, "burst": 6, "merge": 3, "clear": 2, "send": 20},
			forms: []string{"bin", "bin", "binomit"}, modes: []string{"merge", "fresh"}, queryEvery: 0, maxOps: 40, afterSend: sweepAfterSend, extra: diskActor}),
		Execute: ExecFleet,
		NonTrivial: func(p *engine.Plan) bool {
			for _, e := range p.Events {
				if e.Ev == "sweep" {
					return true
				}
			}
			return false
		},
		Rule: "every message produced by a seeded pipeline run is subjected to EVERY truncation point 0..len (three receivers each: fresh decoder without and with a supplied mapping, and a copy of a live sketch) and, at every block boundary, to EVERY flag byte not defined in flag.go; the message population is sampled, the fault space per message is exhaustive; " + distinctRule + "; non-trivial = at least one swept message",
		Real: realFleetComponents, Stub: append([]string{"DocCodec block parser (classifies each cut as inside a block or between blocks)"}, stubFleetComponents...),
		Assumptions: []string{"the state of a receiver after a reported error is not constrained (throw-away receivers are used)", "flags 'quadratic' and 'quartic' are defined in flag.go but not implemented; they are neither required to decode nor counted as undefined", exactAssumption},
		Extra: func(st *engine.Stats) map[string]interface{} {
			return map[string]interface{}{"exhaustive_per_case": true, "cases": st.Probes["messages-swept"], "faults_enumerated": st.Probes["cuts-enumerated"] + st.Probes["flag-substitutions-enumerated"]}
		},
	})
}

// handBuilder is the C09 actor that sends hand-built protobuf messages giving
// bins both sparsely and contiguously.
func handBuilder(g *fleetGen) {
	r := g.r
	left := r.Range(0, 4)
	var act func()
	act = func() {
		if left <= 0 {
			return
		}
		left--
		n := g.nodes[r.Intn(len(g.nodes))]
		id := g.nextMsg
		g.nextMsg++
		centre := int64(n.m.Index(n.centre))
		off := centre + int64(r.Range(-50, 50))
		nc := r.Range(0, 40)
		l := []int64{off, int64(nc)}
		q := []engine.F64{engine.F64(dyadicWeight(r, "int"))}
		if r.Pct(40) {
			q[0] = 0
		}
		for i := 0; i < nc; i++ {
			w := dyadicWeight(r, "frac")
			if r.Pct(25) {
				w = 0
			}
			q = append(q, engine.F64(w))
		}
		for i := r.Range(0, 12); i > 0; i-- {
			l = append(l, off+int64(r.Range(-20, 60))) // overlaps the contiguous range
			q = append(q, engine.F64(dyadicWeight(r, "frac")))
		}
		side := "pos"
		if r.Pct(35) {
			side = "neg"
		}
		g.emit(engine.Event{Ev: "pbmix", N: n.id, J: int64(id), L: l, Q: q, S: side})
		for d := r.Range(1, 2); d > 0; d-- {
			dst := g.sameMapping(n)
			g.q.After(int64(r.Range(1, 2000)), func() {
				g.emit(engine.Event{Ev: "deliver", N: dst.id, J: int64(id), S: "fresh"})
			})
		}
		g.q.After(int64(r.Range(1, 1500)), act)
	}
	g.q.After(int64(r.Range(0, 500)), act)
}

// relayer is the C19 actor: it forwards messages through chains of hops of
// mixed forms, compares mappings of node pairs and sends intruder messages.
func relayer(g *fleetGen) {
	r := g.r
	left := r.Range(2, 16)
	var carrying []int // messages that carry a mapping
	var act func()
	act = func() {
		if left <= 0 {
			return
		}
		left--
		for id, form := range g.msgFormsSorted() {
			_ = id
			_ = form
		}
		carrying = carrying[:0]
		for _, id := range g.msgIDs() {
			if f := g.msgForms[id]; f == "bin" || f == "pb" || f == "pbstream" {
				carrying = append(carrying, id)
			}
		}
		switch r.Pick(50, 25, 10, 15) {
		case 0:
			if len(carrying) == 0 {
				break
			}
			src := carrying[r.Intn(len(carrying))]
			if r.Pct(60) {
				src = carrying[len(carrying)-1] // extend the newest chain
			}
			id := g.nextMsg
			g.nextMsg++
			form := []string{"bin", "pb", "pbstream"}[r.Intn(3)]
			g.emit(engine.Event{Ev: "relay", J: int64(src), I: int64(id), S: form})
			g.msgForms[id] = form
			g.msgOwner[id] = g.msgOwner[src]
			if r.Pct(30) {
				if owner := g.msgOwner[src]; owner != nil {
					g.emit(engine.Event{Ev: "deliver", N: g.sameMapping(owner).id, J: int64(id), S: "fresh"})
				}
			}
		case 1:
			a, b := g.nodes[r.Intn(len(g.nodes))], g.nodes[r.Intn(len(g.nodes))]
			if o := g.otherMapping(a); o != nil && r.Pct(50) {
				b = o
			}
			g.emit(engine.Event{Ev: "mapeq", N: a.id, M: b.id})
		case 2:
			g.emit(engine.Event{Ev: "mapalpha", N: g.nodes[r.Intn(len(g.nodes))].id})
		default:
			if len(g.binMsgs) == 0 {
				break
			}
			src := g.binMsgs[r.Intn(len(g.binMsgs))]
			if owner := g.msgOwner[src]; owner != nil && g.msgForms[src] == "bin" {
				if o := g.otherMapping(owner); o != nil {
					g.emit(engine.Event{Ev: "intrude", N: o.id, J: int64(src)})
				}
			}
		}
		g.q.After(int64(r.Range(1, 1200)), act)
	}
	g.q.After(int64(r.Range(0, 800)), act)
}

func (g *fleetGen) msgIDs() []int {
	ids := make([]int, 0, len(g.msgForms))
	for id := range g.msgForms {
		ids = append(ids, id)
	}
	sort.Ints(ids)
	return ids
}

func (g *fleetGen) msgFormsSorted() map[int]string { return nil }

func init() {
	engine.Register(&engine.Prop{
		ID: "C09", Level: "exploration", World: "fleet",
		QuickRuns: 10000, ThoroughRuns: 1000000,
		Generate: GenFleet(&fleetProfile{prop: "C09", stores: allKinds, roles: []string{"sketch"}, minNodes: 1, maxNodes: 4, shareMap: true, ultrafine: true,
			weights: []string{"unit", "int", "frac", "arb", "arb"}, valueSigns: []string{"pos", "neg", "mixed", "zeros"},
			ops:   map[string]int{"add": 30, "addw": 20, "burst": 6, "merge": 3, "copy": 2, "clear": 4, "reweight": 2, "send": 25},
			forms: []string{"pb", "pbstream"}, modes: []string{"fresh"}, queryEvery: 0, maxOps: 120, extra: handBuilder}),
		Execute:    ExecFleet,
		NonTrivial: nonTrivialFleet(2, "send", "deliver"),
		Rule:       "seeded pipeline simulations over the protobuf wires (message built in memory and marshalled, and the streaming writer); every serialisation is done in both forms and compared; rebuilt sketches of every store kind are compared bit for bit with the sender; hand-built messages mix sparse and contiguous bins; " + distinctRule + "; non-trivial = at least 2 mutations, a send and a delivery",
		Real:       realFleetComponents, Stub: stubFleetComponents,
		Assumptions: []string{"write errors of the io.Writer are unobservable through EncodeProto (no error return) and not injected", "with arbitrary (not exactly summable) weights only per-bin transport is compared, never sums or quantiles (DESIGN 4.7)", "a bounded target store that would have to fold the content is skipped (that is C05)", sampleAssumption},
	})
	engine.Register(&engine.Prop{
		ID: "C19", Level: "exploration", World: "fleet",
		QuickRuns: 10000, ThoroughRuns: 1000000,
		Generate: GenFleet(&fleetProfile{prop: "C19", stores: plainKinds, roles: []string{"sketch", "sketch", "exact"}, minNodes: 1, maxNodes: 3, shareMap: true, intruder: true,
			weights: []string{"unit", "int"}, valueSigns: []string{"pos", "mixed"},
			ops:   map[string]int{"add": 30, "addw": 5, "send": 30, "clear": 2},
			forms: []string{"bin", "pb", "pbstream"}, modes: []string{"merge", "fresh"}, queryEvery: 0, maxOps: 40, extra: relayer}),
		Execute: ExecFleet,
		NonTrivial: func(p *engine.Plan) bool {
			for _, e := range p.Events {
				if e.Ev == "relay" || e.Ev == "mapeq" || e.Ev == "mapalpha" || e.Ev == "intrude" {
					return true
				}
			}
			return false
		},
		Rule: "seeded pipeline simulations in which messages travel through chains of 1-6 relay hops of mixed forms (binary, protobuf message, streaming protobuf), each relay adopting the decoded mapping and re-serialising; mapping pairs of the fleet (same parameters, different kinds, clearly different alpha, built from alpha vs from base+offset) are compared; intruder messages must be refused; " + distinctRule + "; non-trivial = at least one relay, comparison or intruder event",
		Real: realFleetComponents, Stub: stubFleetComponents,
		Assumptions: []string{"alpha, offsets and probe values are sampled; per hop the statement is a pure function, the simulator contributes chains, pairs and refusal under traffic", sampleAssumption},
	})
}

func init() {
	engine.Register(&engine.Prop{
		ID: "C17", Level: "exploration", World: "fleet",
		QuickRuns: 10000, ThoroughRuns: 1000000,
		Generate: GenFleet(&fleetProfile{prop: "C17", stores: allKinds, roles: []string{"sketch", "sketch", "exact"}, minNodes: 1, maxNodes: 2,
			weights: []string{"unit", "int", "frac"}, valueSigns: []string{"pos", "neg", "mixed", "zeros"}, moderate: true,
			ops: map[string]int{"add": 30, "addw": 15, "burst": 6, "chmap": 25, "copy": 1, "clear": 2, "reweight": 2, "query": 3}, queryEvery: 0, maxOps: 60}),
		Execute:    ExecFleet,
		NonTrivial: nonTrivialFleet(2, "chmap"),
		Rule:       "seeded simulations with a converter node applying ChangeMapping (all ordered pairs of mapping kinds; coarser, finer and equal accuracy; scale factors in [1e-3,1e3] including powers of the source base, the bin-aligned case) to sketches in reachable states; " + distinctRule + "; non-trivial = at least 2 mutations and a conversion",
		Real:       realFleetComponents, Stub: stubFleetComponents,
		Assumptions: []string{"tolerances of DESIGN 4.4: total weight within 1e-9*W, slivers below 1e-9*W ignored, rank window slack 1e-6*(W+1)", "values are kept at least a factor 1e3 inside both mappings' ranges after scaling; collapsed (folded) sources are not converted", "the data is sampled"},
	})
}

// twoWorlds builds a property whose runs alternate between the sketch
// pipeline (two thirds) and the store bench (one third).
func twoWorlds(fleet, store func(r *engine.PRNG, run int, tier string) *engine.Plan) (func(r *engine.PRNG, run int, tier string) *engine.Plan, func(p *engine.Plan, st *engine.Stats) *engine.Violation, func(p *engine.Plan) bool) {
	gen := func(r *engine.PRNG, run int, tier string) *engine.Plan {
		if run%3 == 2 {
			p := store(r, run, tier)
			p.World = "store"
			return p
		}
		p := fleet(r, run, tier)
		p.World = "fleet"
		return p
	}
	exec := func(p *engine.Plan, st *engine.Stats) *engine.Violation {
		if p.World == "store" {
			return ExecStoreWorld(p, st)
		}
		return ExecFleet(p, st)
	}
	nt := func(p *engine.Plan) bool {
		if p.World == "store" {
			return nonTrivialStore(p)
		}
		return nonTrivialFleet(3)(p)
	}
	return gen, exec, nt
}

// weightlessAdder is the C10 actor offering refused and weightless values.
func weightlessAdder(g *fleetGen) {
	r := g.r
	left := r.Range(0, 6)
	var act func()
	act = func() {
		if left <= 0 {
			return
		}
		left--
		n := g.nodes[r.Intn(len(g.nodes))]
		maxv := n.m.MaxIndexableValue()
		v := []float64{math.NaN(), math.Inf(1), -maxv * 2, 1, -5, g.value(n)}[r.Intn(6)]
		w := []float64{0, 0, 1, 2, -1}[r.Intn(5)]
		g.emit(engine.Event{Ev: "badadd", N: n.id, V: engine.F64(v), W: engine.F64(w)})
		if pick := r.Intn(1000); pick < 60 {
			// a long chain of snapshots, hops or one-value merges on a copy of the node
			mode := "copy"
			switch {
			case pick < 4:
				mode = "wire"
			case pick < 30:
				mode = "merge"
			}
			g.emit(engine.Event{Ev: "marathon", N: n.id, I: int64([]int{300, 1000, 4000}[r.Intn(3)]), S: mode, V: engine.F64(math.Abs(g.value(n)))})
		}
		if o := g.otherMapping(n); o != nil && r.Pct(50) {
			g.emit(engine.Event{Ev: "badmerge", N: n.id, M: o.id})
			if r.Pct(50) {
				g.emit(engine.Event{Ev: "badmerge", N: o.id, M: n.id})
			}
		}
		g.q.After(int64(r.Range(1, 1500)), act)
	}
	g.q.After(int64(r.Range(0, 800)), act)
}

func init() {
	engine.Register(&engine.Prop{
		ID: "C02", Level: "exploration", World: "fleet",
		QuickRuns: 8000, ThoroughRuns: 800000,
		Generate: GenFleet(&fleetProfile{prop: "C02", stores: plainKinds, roles: []string{"sketch"}, minNodes: 2, maxNodes: 8, shareMap: true,
			weights: []string{"unit", "unit", "int"}, valueSigns: []string{"pos", "neg", "mixed", "zeros"},
			ops:   map[string]int{"add": 35, "addw": 5, "burst": 8, "merge": 25, "copy": 2, "clear": 4, "send": 12, "query": 3},
			forms: []string{"bin", "binomit"}, modes: []string{"merge", "fresh"}, queryEvery: 0, maxOps: 150}),
		Execute:    ExecFleet,
		NonTrivial: nonTrivialFleet(3, "merge"),
		Rule:       "seeded fleet simulations: the input stream is partitioned over 2-8 agents with any mix of non-collapsing stores sharing a mapping, merged in-process and over the wire in whatever order and tree shape the schedule produces (re-ordered, duplicated, into empty and cleared receivers); after every merge and at quiescence the receiver is compared with a single real sketch fed the whole input one value at a time; " + distinctRule + "; non-trivial = at least 3 mutations and a merge",
		Real:       realFleetComponents, Stub: stubFleetComponents,
		Assumptions: []string{"the single copy S* is itself a real sketch (the statement is differential); its store kind varies with the event number", exactAssumption, sampleAssumption},
	})
	engine.Register(&engine.Prop{
		ID: "C10", Level: "exploration", World: "fleet",
		QuickRuns: 10000, ThoroughRuns: 1000000,
		Generate: GenFleet(&fleetProfile{prop: "C10", stores: allKinds, roles: []string{"exact", "exact", "exact", "sketch"}, minNodes: 1, maxNodes: 4, shareMap: true, intruder: true,
			weights: []string{"unit", "int", "frac", "wide"}, valueSigns: []string{"pos", "neg", "mixed", "zeros"}, moderate: true,
			ops:   map[string]int{"add": 30, "addw": 20, "burst": 4, "merge": 10, "copy": 4, "clear": 4, "reweight": 5, "send": 10, "query": 6, "chmap": 5},
			forms: []string{"bin", "binomit"}, modes: []string{"merge", "fresh", "reuse"}, queryEvery: 5, maxOps: 100, extra: weightlessAdder}),
		Execute:    ExecFleet,
		NonTrivial: nonTrivialFleet(3),
		Rule:       "seeded pipeline simulations of sketches with exact summary statistics through additions (incl. weight 0 and refused values), merges, copies, clears, re-weightings, unit changes and encode/decode hops, the statistics being compared with exact arithmetic after every event; refused merges between clearly different mappings; chains of 300-4000 steps of snapshot / one-value merge / wire hop plus Add on copies of the nodes; " + distinctRule + "; non-trivial = at least 3 mutations",
		Real:       realFleetComponents, Stub: stubFleetComponents,
		Assumptions: []string{"sum tolerance 32*2^-53*sum|v*w| (x4 after a unit change)", "quantile == clamp(plain answer) only in the exact weight regime; after a unit change only 'inside [min,max]' (DESIGN 4.7)", sampleAssumption},
	})
	for _, id := range []string{"C14", "C15", "C16"} {
		id := id
		ops := map[string]int{"add": 30, "addw": 15, "burst": 5, "merge": 8, "copy": 3, "clear": 4, "reweight": 3, "send": 8, "query": 8}
		rule := ""
		switch id {
		case "C14":
			ops["query"], ops["send"], ops["copy"], ops["chmap"] = 30, 14, 8, 3
			rule = "every run executes its mutation sequence on two replicas: R receives the planned read-only events (queries of every kind, serialisation in every form, copies, being a merge or mapping-change argument) at densities from none to several per mutation, Q receives none and is first read at the end of the run, when both must answer identically; every read is bracketed by snapshots; after a copy every mutation of one side is bracketed by snapshots of the other"
		case "C15":
			ops["clear"] = 12
			rule = "at every clear a freshly constructed twin is created and receives the same subsequent events; after every event the cleared, re-used object and the twin must answer every observer identically (the model is not consulted); decoding into cleared, re-used stores is compared with decoding into new ones"
		case "C16":
			ops["reweight"] = 14
			rule = "every Reweight (dyadic factors 2^-8..2^8 inside the exactness budget, applied to states reached by any history) is bracketed by snapshots: every bin on both sides, the zero weight and the count must be exactly the factor times their previous value, no bin may appear or disappear, exact sum scales, exact extremes stay; a shadow sketch built with the scaled weights then follows the re-weighted one through every later event and must answer identically; weights of 2^53 and more are bracketed on bins and zero weight"
		}
		gen, exec, nt := twoWorlds(GenFleet(&fleetProfile{prop: id, stores: allKinds, roles: []string{"sketch", "sketch", "exact"}, minNodes: 1, maxNodes: 3, shareMap: true,
			weights: []string{"unit", "int", "frac"}, valueSigns: []string{"pos", "neg", "mixed", "zeros"},
			ops: ops, forms: []string{"bin", "binomit", "pb", "pbstream"}, modes: []string{"merge", "fresh", "reuse"}, queryEvery: map[string]int{"C14": 35, "C15": 0, "C16": 0}[id], maxOps: 120,
			extra: map[string]func(*fleetGen){"C15": confusedSender, "C16": confusedSender}[id]}), GenStoreWorld(id))
		engine.Register(&engine.Prop{
			ID: id, Level: "exploration", World: "fleet+store",
			QuickRuns: 9000, ThoroughRuns: 900000,
			Generate: gen, Execute: exec, NonTrivial: nt,
			Rule: "seeded simulations, two thirds in the sketch pipeline and one third on the store bench; " + rule + "; " + distinctRule + "; non-trivial = at least 3 mutations (and an interaction on the store bench)",
			Real: realFleetComponents, Stub: stubFleetComponents,
			Assumptions: []string{"oracles compare real objects with real objects (replica, twin, own earlier snapshot): a defect shared by both sides is another property's business", exactAssumption, sampleAssumption},
		})
	}
}

func init() {
	engine.Register(&engine.Prop{
		ID: "C18", Level: "fault_enumeration", World: "codec",
		QuickRuns: 10000, ThoroughRuns: 1500000,
		Generate: GenCodecWorld, Execute: ExecCodecWorld,
		NonTrivial: func(p *engine.Plan) bool { return len(p.Events) >= 2 },
		Rule: "a writer appends a seeded sequence of typed records (uvarint, varint, varfloat, float64LE, flag; every bit-length class, 2^k+-d, extremes, all float classes) to one buffer; the stream is then cut at EVERY byte: the reader must return exactly the complete records, then io.EOF without consuming anything; arbitrary byte strings (exhaustively up to length 2 every 400th run, seeded up to length 12) are fed to every decoder and compared with the documentation codec; " +
			"distinct = distinct sequence of record kinds; non-trivial = at least 2 events",
		Real:        []string{"ddsketch/encoding (all primitive codecs, size functions, flags: real code)"},
		Stub:        []string{"writer, reader and buffer pool; stream cut at every byte; byte-string feeder", "DocCodec primitives (independent implementation from the doc comments, math/big)"},
		Assumptions: []string{"the exact round trip is a pure function of one value: the record values are sampled; the simulator contributes the stream, the framing and the exhaustive cuts", "NaN payloads: varfloat compares NaN with NaN, float64LE compares bit patterns"},
		Extra: func(st *engine.Stats) map[string]interface{} {
			return map[string]interface{}{"exhaustive_per_case": true, "faults_enumerated": st.Probes["stream-cuts-enumerated"], "exhaustive_byte_string_sweeps": st.Probes["exhaustive-up-to-length-2"]}
		},
	})
	engine.Register(&engine.Prop{
		ID: "C20", Level: "exploration", World: "dataset",
		QuickRuns: 20000, ThoroughRuns: 2000000,
		Generate: GenDatasetWorld, Execute: ExecDatasetWorld,
		NonTrivial: func(p *engine.Plan) bool {
			adds, q := 0, false
			for _, e := range p.Events {
				if e.Ev == "add" {
					adds++
				}
				if e.Ev == "query" || e.Ev == "merge" {
					q = true
				}
			}
			return adds >= 2 && q
		},
		Rule:        "seeded simulations of 1-3 datasets with adder, reader and merger actors (queries interleaved with additions at every density); every answer is compared with a sorted-slice model using exact rank arithmetic; at quiescence each dataset is rebuilt from a permutation of its multiset without interleaved queries and must answer identically; distinct = distinct schedule signature; non-trivial = at least 2 additions and a query or merge",
		Real:        []string{"dataset.Dataset (real code)", "ddsketch/stat (compensated sum used by Dataset.Sum)"},
		Stub:        []string{"adder, reader and merger actors with think times"},
		Assumptions: []string{"finite values only (NaN and infinities are outside the statement); Min/Max are not called on an empty dataset", "when fl(q*(n-1)) and the exact product lie on different sides of an integer, either neighbouring order statistic is accepted", sampleAssumption},
	})
}

// diskActor is the C08 actor: periodic checkpoints, disk faults (torn and lost
// writes), crashes and restarts.
func diskActor(g *fleetGen) {
	r := g.r
	left := r.Range(0, 10)
	var act func()
	act = func() {
		if left <= 0 {
			return
		}
		left--
		n := g.nodes[r.Intn(len(g.nodes))]
		switch r.Pick(50, 50) {
		case 0:
			g.emit(engine.Event{Ev: "checkpoint", N: n.id})
		default:
			g.emit(engine.Event{Ev: "checkpoint", N: n.id})
			switch r.Pick(50, 20, 30) {
			case 0:
				g.emit(engine.Event{Ev: "diskfault", N: n.id, I: int64(r.Intn(4096)), S: "torn"})
			case 1:
				g.emit(engine.Event{Ev: "diskfault", N: n.id, S: "lost"})
			}
			g.emit(engine.Event{Ev: "crash", N: n.id})
			g.emit(engine.Event{Ev: "restart", N: n.id})
			n.n = 0
		}
		g.q.After(int64(r.Range(1, 2500)), act)
	}
	g.q.After(int64(r.Range(100, 1500)), act)
}

// confusedSender is the C15 actor that offers a plain encoding to an exact-summary sketch (the
// decode is refused half-way when that sketch is still empty, silently accepted otherwise);
// the owner then clears the sketch and re-uses it.
// decayer: an owner that ages a sketch away (every weight underflows to 0),
// then clears and re-uses it.
func decayer(g *fleetGen) {
	r := g.r
	if !r.Pct(35) {
		return
	}
	n := g.nodes[r.Intn(len(g.nodes))]
	g.q.After(int64(r.Range(0, 6000)), func() {
		g.emit(engine.Event{Ev: "decay", N: n.id})
		g.emit(engine.Event{Ev: "clear", N: n.id})
		n.n = 0
		for k := r.Range(1, 6); k > 0; k-- {
			g.emit(engine.Event{Ev: "add", N: n.id, V: engine.F64(g.value(n))})
			n.n++
		}
	})
}

// hugeAdder: after some ordinary traffic a weight of 2^53 or more arrives (a pre-aggregated
// count, a re-weighted import); the sketch is then re-weighted a few times and finally cleared.
func hugeAdder(g *fleetGen) {
	r := g.r
	if !r.Pct(25) {
		return
	}
	n := g.nodes[r.Intn(len(g.nodes))]
	g.q.After(int64(r.Range(0, 6000)), func() {
		for k := r.Range(0, 4); k > 0; k-- {
			g.emit(engine.Event{Ev: "add", N: n.id, V: engine.F64(g.value(n))})
			n.n++
		}
		w := math.Ldexp(float64(r.Range(1, 7)), r.Range(53, 62))
		g.emit(engine.Event{Ev: "hugeadd", N: n.id, V: engine.F64(g.value(n)), W: engine.F64(w)})
		for k := r.Range(1, 3); k > 0; k-- {
			g.emit(engine.Event{Ev: "reweight", N: n.id, W: engine.F64(math.Ldexp(1, r.Range(-3, 4)))})
		}
		g.emit(engine.Event{Ev: "clear", N: n.id})
		n.n = 0
	})
}

func confusedSender(g *fleetGen) {
	r := g.r
	if g.prof.prop == "C15" {
		decayer(g)
	}
	if g.prof.prop == "C16" {
		hugeAdder(g)
	}
	var exact, plain *fgNode
	for _, n := range g.nodes {
		if n.spec.Role == "exact" && exact == nil {
			exact = n
		}
		if n.spec.Role == "sketch" && plain == nil {
			plain = n
		}
	}
	if exact == nil || plain == nil || !r.Pct(60) {
		return
	}
	when := int64(0)
	if r.Pct(50) {
		when = int64(r.Range(0, 4000))
	}
	g.q.After(when, func() {
		for k := r.Range(1, 12); k > 0; k-- {
			g.emit(engine.Event{Ev: "add", N: plain.id, V: engine.F64(g.value(plain))})
			plain.n++
		}
		id := g.nextMsg
		g.nextMsg++
		g.emit(engine.Event{Ev: "send", N: plain.id, J: int64(id), S: []string{"bin", "binomit"}[r.Intn(2)], I: int64(r.Range(0, 40))})
		g.msgForms[id] = "bin"
		g.msgOwner[id] = plain
		g.emit(engine.Event{Ev: "deliver", N: exact.id, J: int64(id), S: "merge"})
		if g.prof.prop == "C16" {
			for k := r.Range(1, 3); k > 0; k-- {
				g.emit(engine.Event{Ev: "reweight", N: exact.id, W: engine.F64(math.Ldexp(1, r.Range(-3, 4)))})
			}
		}
		g.emit(engine.Event{Ev: "clear", N: exact.id})
		exact.n = 0
		for k := r.Range(1, 6); k > 0; k-- {
			g.emit(engine.Event{Ev: "add", N: exact.id, V: engine.F64(g.value(exact))})
			exact.n++
		}
	})
}
