package worlds

import (
	"math"

	"verif/sim/engine"
	"verif/sim/refmodel"
)

var realStoreComponents = []string{"ddsketch/store (all five stores, real code)", "ddsketch/encoding", "ddsketch/pb/sketchpb", "google.golang.org/protobuf"}
var stubStoreComponents = []string{"store owners (seeded actors with think times)", "byte links with latency, duplication and loss", "caller buffer pool"}

func init() {
	engine.Register(&engine.Prop{
		ID: "C04", Level: "exploration", World: "store",
		QuickRuns: 20000, ThoroughRuns: 1500000,
		Generate:   GenStoreWorld("C04"),
		Execute:    ExecStoreWorld,
		NonTrivial: nonTrivialStore,
		Rule: "seeded store-bench simulations (1-4 live stores, owners with think times, byte links with latency/dup/loss); " +
			"distinct = distinct schedule signature (sequence of event kind, mode and store kinds of the nodes involved, arguments abstracted); " +
			"non-trivial = at least 3 mutations and at least one merge, delivery, clear, copy or reweight",
		Real: realStoreComponents, Stub: stubStoreComponents,
		Assumptions: []string{
			"weights are dyadic and inside the exactness budget (DESIGN 4.3), so float sums are order independent and compared with ==",
			"index spans are bounded per store kind (dense 2^16, paginated 2^22) by the executor",
			"a clean batch is evidence, not proof: histories and index/weight values are sampled",
		},
	})
	engine.Register(&engine.Prop{
		ID: "C05", Level: "exploration", World: "store",
		QuickRuns: 20000, ThoroughRuns: 1500000,
		Generate:   GenStoreWorld("C05"),
		Execute:    ExecStoreWorld,
		NonTrivial: nonTrivialStore,
		Rule: "seeded store-bench simulations with at least one collapsing store (bin limits 1..2048) and partners of any kind; " +
			"distinct = distinct schedule signature; non-trivial = at least 3 mutations and at least one merge, delivery, clear, copy or reweight",
		Real: realStoreComponents, Stub: stubStoreComponents,
		Assumptions: []string{
			"weights are dyadic and inside the exactness budget (DESIGN 4.3)",
			"the reference is the exact content folded at the collapsing edge (max-N+1 / min+N-1), as the property states",
			"a clean batch is evidence, not proof",
		},
	})
}

var realFleetComponents = []string{"ddsketch (DDSketch, DDSketchWithExactSummaryStatistics: real code)", "ddsketch/store (all five stores)", "ddsketch/mapping (all three mappings)", "ddsketch/encoding", "ddsketch/stat", "ddsketch/pb/sketchpb", "google.golang.org/protobuf"}
var stubFleetComponents = []string{"agents, aggregators, readers and bad clients (seeded actors with think times)", "transport: links with latency, re-ordering, duplication, loss, concatenation", "caller buffer pool with canaries", "io.Writer of the streaming protobuf encoder", "simulated clock (orders events only; the library reads no clock)"}

var plainKinds = []string{refmodel.Dense, refmodel.Sparse, refmodel.Paginated}
var allKinds = []string{refmodel.Dense, refmodel.Sparse, refmodel.Paginated, refmodel.CLow, refmodel.CHigh}

const exactAssumption = "weights are dyadic and inside the exactness budget (DESIGN 4.3), so every == comparison is on exactly representable sums"
const sampleAssumption = "a clean batch is evidence, not proof: values, weights, quantiles and histories are sampled by the seeded generator"
const distinctRule = "distinct = distinct schedule signature (sequence of event kind, mode, role and store kind of the nodes involved; arguments abstracted)"

func badClient(g *fleetGen) {
	r := g.r
	var act func()
	left := r.Range(2, 14)
	act = func() {
		if left <= 0 {
			return
		}
		left--
		n := g.nodes[r.Intn(len(g.nodes))]
		maxv := n.m.MaxIndexableValue()
		switch r.Pick(40, 25, 12, 10, 13) {
		case 0:
			v := []float64{math.NaN(), math.Inf(1), math.Inf(-1), math.MaxFloat64, -math.MaxFloat64, nudge(maxv, 1), -nudge(maxv, 1), maxv * 2, -maxv * 1.0001, 1, -3}[r.Intn(11)]
			w := []float64{1, 1, 2, 0.5, -1, -0.25, -1e300, math.Inf(-1)}[r.Intn(8)]
			g.emit(engine.Event{Ev: "badreq", N: n.id, S: "add", V: engine.F64(v), W: engine.F64(w), I: int64(r.Intn(2))})
		case 1:
			q := []float64{math.NaN(), -1e-300, math.Nextafter(0, -1), nudge(1, 1), 1.5, -1, math.Inf(1), math.Inf(-1), 2, 0.5, 0, 1}[r.Intn(12)]
			g.emit(engine.Event{Ev: "badreq", N: n.id, S: "quantile", Q: []engine.F64{engine.F64(q)}})
		case 2:
			if len(g.nodes) > 1 {
				m := g.nodes[r.Intn(len(g.nodes))]
				g.emit(engine.Event{Ev: "badreq", N: n.id, M: m.id, S: "merge"})
			}
		case 3:
			w := []float64{0, math.Copysign(0, -1), -1, -0.5, -1e-300, math.Inf(-1)}[r.Intn(6)]
			g.emit(engine.Event{Ev: "badreq", N: n.id, S: "reweight", W: engine.F64(w)})
		default:
			which := r.Intn(9)
			var v float64
			if which < 6 {
				v = []float64{0, 1, -0.1, 1.5, nudge(1, -1), math.SmallestNonzeroFloat64, 0.5, 1e-6, 0.99, math.Inf(1), -math.MaxFloat64, 2}[r.Intn(12)]
			} else {
				v = []float64{1, nudge(1, 1), 0.5, 0, -2, 1.02, 2, 1e300, nudge(1, -1)}[r.Intn(9)]
			}
			g.emit(engine.Event{Ev: "badreq", S: "ctor", V: engine.F64(v), W: engine.F64(float64(r.Range(-50, 50))), I: int64(which)})
		}
		g.q.After(int64(r.Range(1, 1500)), act)
	}
	g.q.After(int64(r.Range(0, 800)), act)
}

func init() {
	engine.Register(&engine.Prop{
		ID: "C01", Level: "exploration", World: "fleet",
		QuickRuns: 20000, ThoroughRuns: 1500000,
		Generate: GenFleet(&fleetProfile{prop: "C01", stores: plainKinds, roles: []string{"sketch", "sketch", "sketch", "exact"}, minNodes: 1, maxNodes: 2,
			weights: []string{"unit"}, valueSigns: []string{"pos", "pos", "neg", "mixed", "mixed", "zeros", "zeroneg"},
			ops: map[string]int{"add": 40, "burst": 10, "copy": 3, "clear": 3, "query": 25}, queryEvery: 25, maxOps: 200}),
		Execute:    ExecFleet,
		NonTrivial: nonTrivialFleet(2, "query"),
		Rule:       "seeded single-sketch simulations: values arrive one at a time with queries interleaved at every density; " + distinctRule + "; non-trivial = at least 2 mutations and a query",
		Real:       realFleetComponents, Stub: stubFleetComponents,
		Assumptions: []string{"the oracle uses only the configured alpha, the absorbed values and exact rank arithmetic; margin 1e-11 relative (DESIGN 4.4)", sampleAssumption},
	})
	engine.Register(&engine.Prop{
		ID: "C11", Level: "exploration", World: "fleet",
		QuickRuns: 20000, ThoroughRuns: 1500000,
		Generate: GenFleet(&fleetProfile{prop: "C11", stores: plainKinds, roles: []string{"sketch", "sketch", "exact"}, minNodes: 1, maxNodes: 3, shareMap: true,
			weights: []string{"tiny", "tiny", "wide", "frac"}, valueSigns: []string{"pos", "pos", "neg", "mixed", "mixed", "zeros"},
			ops: map[string]int{"add": 4, "addw": 40, "reweight": 8, "merge": 6, "copy": 2, "clear": 2, "query": 30}, queryEvery: 30, maxOps: 120}),
		Execute:    ExecFleet,
		NonTrivial: nonTrivialFleet(2, "query"),
		Rule:       "seeded simulations of weighted sketches (dyadic weights, total weight from 2^-10, reached by weighted adds, merges and re-weighting); " + distinctRule + "; non-trivial = at least 2 mutations and a query",
		Real:       realFleetComponents, Stub: stubFleetComponents,
		Assumptions: []string{"ranks q*(W-1) and cumulative weights are evaluated in exact rational arithmetic; window slack 1e-9*(W+1)", exactAssumption, sampleAssumption},
	})
	engine.Register(&engine.Prop{
		ID: "C12", Level: "exploration", World: "fleet",
		QuickRuns: 12000, ThoroughRuns: 1000000,
		Generate: GenFleet(&fleetProfile{prop: "C12", stores: allKinds, roles: []string{"sketch"}, minNodes: 1, maxNodes: 4, shareMap: true,
			weights: []string{"unit", "int"}, valueSigns: []string{"pos", "neg", "mixed", "zeros", "zeroneg"},
			ops:   map[string]int{"add": 30, "addw": 15, "burst": 5, "merge": 10, "copy": 3, "clear": 4, "reweight": 2, "send": 8, "query": 10},
			forms: []string{"bin", "binomit", "pb", "pbstream"}, modes: []string{"merge", "fresh", "reuse"}, queryEvery: 10, maxOps: 120}),
		Execute:    ExecFleet,
		NonTrivial: nonTrivialFleet(3),
		Rule:       "seeded pipeline simulations with the coherence invariants evaluated after every event on the node it touched; " + distinctRule + "; non-trivial = at least 3 mutations",
		Real:       realFleetComponents, Stub: stubFleetComponents,
		Assumptions: []string{"integer weights with total weight >= 1 (total weight below one is C11's case)", exactAssumption, sampleAssumption},
	})
	engine.Register(&engine.Prop{
		ID: "C13", Level: "exploration", World: "fleet",
		QuickRuns: 12000, ThoroughRuns: 1000000,
		Generate: GenFleet(&fleetProfile{prop: "C13", stores: allKinds, roles: []string{"sketch", "exact"}, minNodes: 1, maxNodes: 3,
			weights: []string{"unit", "int", "frac"}, valueSigns: []string{"pos", "neg", "mixed", "zeros"},
			ops: map[string]int{"add": 30, "addw": 15, "copy": 2, "clear": 6, "reweight": 2}, queryEvery: 0, maxOps: 60, extra: badClient}),
		Execute: ExecFleet,
		NonTrivial: func(p *engine.Plan) bool {
			for _, e := range p.Events {
				if e.Ev == "badreq" {
					return true
				}
			}
			return false
		},
		Rule: "seeded simulations with a bad client issuing invalid requests at arbitrary moments of the history; " + distinctRule + "; non-trivial = at least one invalid request",
		Real: realFleetComponents, Stub: stubFleetComponents,
		Assumptions: []string{"NaN weights, factors and constructor parameters, and a weight of exactly 0 with an invalid value, are outside the documented contract and not generated", sampleAssumption},
	})
}
