package worlds

import "verif/sim/engine"

var realStoreComponents = []string{"ddsketch/store (all five stores, real code)", "ddsketch/encoding", "ddsketch/pb/sketchpb", "google.golang.org/protobuf"}
var stubStoreComponents = []string{"store owners (seeded actors with think times)", "byte links with latency, duplication and loss", "caller buffer pool"}

func init() {
	engine.Register(&engine.Prop{
		ID: "C04", Level: "exploration", World: "store",
		QuickRuns: 20000, ThoroughRuns: 1500000,
		Generate:   GenStoreWorld("C04"),
		Execute:    ExecStoreWorld,
		NonTrivial: nonTrivialStore,
		Rule: "seeded store-bench simulations (1-4 live stores, owners with think times, byte links with latency/dup/loss); " +
			"distinct = distinct schedule signature (sequence of event kind, mode and store kinds of the nodes involved, arguments abstracted); " +
			"non-trivial = at least 3 mutations and at least one merge, delivery, clear, copy or reweight",
		Real: realStoreComponents, Stub: stubStoreComponents,
		Assumptions: []string{
			"weights are dyadic and inside the exactness budget (DESIGN 4.3), so float sums are order independent and compared with ==",
			"index spans are bounded per store kind (dense 2^16, paginated 2^22) by the executor",
			"a clean batch is evidence, not proof: histories and index/weight values are sampled",
		},
	})
	engine.Register(&engine.Prop{
		ID: "C05", Level: "exploration", World: "store",
		QuickRuns: 20000, ThoroughRuns: 1500000,
		Generate:   GenStoreWorld("C05"),
		Execute:    ExecStoreWorld,
		NonTrivial: nonTrivialStore,
		Rule: "seeded store-bench simulations with at least one collapsing store (bin limits 1..2048) and partners of any kind; " +
			"distinct = distinct schedule signature; non-trivial = at least 3 mutations and at least one merge, delivery, clear, copy or reweight",
		Real: realStoreComponents, Stub: stubStoreComponents,
		Assumptions: []string{
			"weights are dyadic and inside the exactness budget (DESIGN 4.3)",
			"the reference is the exact content folded at the collapsing edge (max-N+1 / min+N-1), as the property states",
			"a clean batch is evidence, not proof",
		},
	})
}
