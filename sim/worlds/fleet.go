package worlds

import (
	"bytes"
	"fmt"
	"math"
	"sort"
	"strings"

	"github.com/DataDog/sketches-go/ddsketch"
	"github.com/DataDog/sketches-go/ddsketch/mapping"
	"github.com/DataDog/sketches-go/ddsketch/pb/sketchpb"
	"github.com/DataDog/sketches-go/ddsketch/store"
	"google.golang.org/protobuf/proto"

	"verif/sim/engine"
	"verif/sim/refmodel"
)

// W-fleet, the "sketch pipeline": agents own sketches (plain or with exact
// summary statistics, any store kind, any mapping), flush them over a
// simulated transport (binary wire with or without the mapping block, protobuf
// message, streaming protobuf writer) to aggregators that decode into live,
// fresh or cleared-and-re-used sketches; readers query, a bad client sends
// invalid requests, a converter changes mappings. All library code is real;
// transport, buffer pool, clients and clock are stubs owned by the simulator.
//
// Events:
//
//	add      N V          Add(V)
//	addw     N V W        AddWithCount(V, W)
//	merge    N M          N.MergeWith(M)
//	copy     N M          node M := N.Copy()
//	clear    N
//	reweight N W
//	chmap    N M W        node M := N.ChangeMapping(mapping and stores of node spec M, scale W)
//	send     N J S I      serialise N into message J; S = bin | binomit | pb | pbstream ; I = buffer prefix length
//	concat   . J L        message J := concatenation of binary messages L
//	deliver  N J S        S = merge (DecodeAndMergeWith into the live sketch) | fresh | reuse (decode, then MergeWith)
//	query    N Q S        quantile queries and summaries
//	(property specific events are handled by the property's hook)

// sk is the method set shared by both sketch variants.
type sk interface {
	IsEmpty() bool
	GetCount() float64
	GetZeroCount() float64
	GetSum() float64
	GetPositiveValueStore() store.Store
	GetNegativeValueStore() store.Store
	GetMinValue() (float64, error)
	GetMaxValue() (float64, error)
	GetValueAtQuantile(q float64) (float64, error)
	GetValuesAtQuantiles(qs []float64) ([]float64, error)
	ForEach(f func(value, count float64) (stop bool))
	Add(v float64) error
	AddWithCount(v, w float64) error
	Reweight(w float64) error
	Clear()
	Encode(b *[]byte, omitIndexMapping bool)
	DecodeAndMergeWith(b []byte) error
}

func plainOf(s sk) *ddsketch.DDSketch {
	switch t := s.(type) {
	case *ddsketch.DDSketch:
		return t
	case *ddsketch.DDSketchWithExactSummaryStatistics:
		return t.DDSketch
	}
	return nil
}

func buildMapping(n *engine.Node) (mapping.IndexMapping, error) {
	if n.ByGam {
		switch n.Map {
		case "log":
			return mapping.NewLogarithmicMappingWithGamma(float64(n.Gamma), float64(n.Offset))
		case "lin":
			return mapping.NewLinearlyInterpolatedMappingWithGamma(float64(n.Gamma), float64(n.Offset))
		case "cub":
			return mapping.NewCubicallyInterpolatedMappingWithGamma(float64(n.Gamma), float64(n.Offset))
		}
	}
	switch n.Map {
	case "log":
		return mapping.NewLogarithmicMapping(float64(n.Alpha))
	case "lin":
		return mapping.NewLinearlyInterpolatedMapping(float64(n.Alpha))
	case "cub":
		return mapping.NewCubicallyInterpolatedMapping(float64(n.Alpha))
	}
	return nil, fmt.Errorf("unknown mapping kind %q", n.Map)
}

func mapKey(n *engine.Node) string {
	if n.ByGam {
		return fmt.Sprintf("%s/g%016x/o%016x", n.Map, math.Float64bits(float64(n.Gamma)), math.Float64bits(float64(n.Offset)))
	}
	return fmt.Sprintf("%s/a%016x", n.Map, math.Float64bits(float64(n.Alpha)))
}

type knode struct {
	spec    engine.Node
	mapping mapping.IndexMapping
	mkey    string
	real    sk
	model   *refmodel.RefSketch
	twin    sk // C15
	replica sk // C14
	peers   []int
	// stores kept for re-use as decode targets (cleared between uses)
	scratchPos, scratchNeg store.Store
	tainted                bool
	// dirty: a decode into this sketch was refused half-way (state after an error is
	// not constrained); only Clear brings the node back under observation (C15).
	dirty bool
}

func (k *knode) alpha() float64 { return float64(k.spec.Alpha) }
func (k *knode) exact() bool    { return k.spec.Role == "exact" }

type kmsg struct {
	form       string // bin | binomit | pb | pbstream | foreign
	data       []byte
	model      *refmodel.RefSketch
	spec       engine.Node // producer
	mkey       string
	exact      bool // produced by the exact-summary variant
	snap       *skSnap
	sentAt     int
	deliveries int
	parts      int // number of concatenated encodings (0: hand-built message)
	hasMapping bool
	hops       int // C19: number of re-serialisations this content went through
	tainted    bool
	spans      [2]ispan // real index spans of a tainted producer (positive, negative)
	// live: the message object ToProto handed out, kept until delivery (a snapshot, whatever the producer does next)
	live *sketchpb.DDSketch
}

type fleetExec struct {
	xctx
	nodes map[int]*knode
	order []int
	msgs  map[int]*kmsg
	hook  fleetHook
	// lastChmap describes the most recent successful ChangeMapping (for the hooks).
	lastChmap *chmapInfo
	// reusedBuilder is the streaming protobuf builder re-used across serialisations of a run (C09).
	reusedBuilder    *sketchpb.DDSketchBuilder
	reusedMapBuilder *sketchpb.IndexMappingBuilder
	// disk holds the checkpoints of each node (C08), oldest first.
	disk map[int][]*checkpoint
}

// fleetHook is the per-property part of the executor.
type fleetHook interface {
	// event handles property-specific event kinds; returns true if it did.
	event(x *fleetExec, e engine.Event) bool
	// before runs before a common event on node nd is executed; the returned
	// function (if any) runs after it, whether or not the event was a no-op.
	before(x *fleetExec, e engine.Event, nd *knode) func()
	// after runs after every executed common event (invariants).
	after(x *fleetExec, e engine.Event, nd *knode)
	// sent is called after a node has been serialised into message m.
	sent(x *fleetExec, e engine.Event, nd *knode, m *kmsg)
	// decoded is called when a message has been decoded into a fresh or re-used sketch d.
	decoded(x *fleetExec, e engine.Event, nd *knode, m *kmsg, d sk, dm *refmodel.RefSketch)
	// query evaluates the property's oracles on a query event.
	query(x *fleetExec, e engine.Event, nd *knode)
	quiesce(x *fleetExec)
}

type noHook struct{}

func (noHook) event(*fleetExec, engine.Event) bool                                      { return false }
func (noHook) after(*fleetExec, engine.Event, *knode)                                   {}
func (noHook) sent(*fleetExec, engine.Event, *knode, *kmsg)                             {}
func (noHook) before(*fleetExec, engine.Event, *knode) func()                           { return nil }
func (noHook) decoded(*fleetExec, engine.Event, *knode, *kmsg, sk, *refmodel.RefSketch) {}
func (noHook) query(*fleetExec, engine.Event, *knode)                                   {}
func (noHook) quiesce(*fleetExec)                                                       {}

var fleetHooks = map[string]func() fleetHook{}

// ExecFleet executes a W-fleet plan with the oracle set of plan.Property.
func ExecFleet(p *engine.Plan, st *engine.Stats) *engine.Violation {
	x := &fleetExec{xctx: xctx{prop: p.Property, plan: p, st: st}, nodes: map[int]*knode{}, msgs: map[int]*kmsg{}}
	if mk := fleetHooks[p.Property]; mk != nil {
		x.hook = mk()
	} else {
		x.hook = noHook{}
	}
	setMapOrder(p.Cfg("maporder", "asc"), p.Seed^uint64(p.Run)*0x9E3779B97F4A7C15)
	defer setMapOrder("asc", 0)
	setSpanBudgets(p, 1<<13, 1<<16)
	refmodel.BudgetBits = 50
	if p.Cfg("budget", "") == "52" {
		refmodel.BudgetBits = 52
	}
	defer func() { refmodel.BudgetBits = 50 }()
	return x.run(func() {
		for i := range p.Nodes {
			n := p.Nodes[i]
			if (n.Role != "sketch" && n.Role != "exact") || n.Lazy {
				continue
			}
			x.addNode(n)
		}
		for i, e := range p.Events {
			x.at = i
			x.step(e)
			if e.T > st.SimTimeUs {
				st.SimTimeUs = e.T
			}
		}
		x.at = len(p.Events) - 1
		x.hook.quiesce(x)
	})
}

func validSpec(n *engine.Node) bool {
	switch n.Store {
	case refmodel.Dense, refmodel.Sparse, refmodel.Paginated:
	case refmodel.CLow, refmodel.CHigh:
		if n.N < 1 {
			return false
		}
	default:
		return false
	}
	if n.ByGam {
		g := float64(n.Gamma)
		if !(g > 1) || math.IsInf(g, 0) || math.IsNaN(float64(n.Offset)) || math.IsInf(float64(n.Offset), 0) {
			return false
		}
	}
	a := float64(n.Alpha)
	return a > 0 && a < 1
}

func (x *fleetExec) newSketch(n *engine.Node, m mapping.IndexMapping) sk {
	prov := providerFor(n.Store, n.N)
	if n.Ctor {
		// the convenience constructors and providers of the library, where one exists for this shape
		switch n.Store {
		case refmodel.Dense:
			prov = store.DenseStoreConstructor
		case refmodel.Sparse:
			prov = store.SparseStoreConstructor
		case refmodel.Paginated:
			prov = store.BufferedPaginatedStoreConstructor
			if n.ID%2 == 0 {
				prov = store.DefaultProvider
			}
		}
		if n.Map == "log" && !n.ByGam {
			var s sk
			var err error
			a := float64(n.Alpha)
			switch {
			case n.Role == "sketch" && n.Store == refmodel.Dense:
				s, err = ddsketch.LogUnboundedDenseDDSketch(a)
			case n.Role == "sketch" && n.Store == refmodel.CLow:
				s, err = ddsketch.LogCollapsingLowestDenseDDSketch(a, n.N)
			case n.Role == "sketch" && n.Store == refmodel.CHigh:
				s, err = ddsketch.LogCollapsingHighestDenseDDSketch(a, n.N)
			case n.Role == "sketch" && n.Store == refmodel.Paginated:
				s, err = ddsketch.NewDefaultDDSketch(a)
			case n.Role == "exact" && n.Store == refmodel.Paginated:
				s, err = ddsketch.NewDefaultDDSketchWithExactSummaryStatistics(a)
			}
			if err != nil {
				x.fail("accepts-valid", "construct/"+n.Role+"/"+n.Store, "a convenience constructor refused a valid relative accuracy: "+err.Error(), "a sketch", err.Error())
			}
			if s != nil && !isNilSk(s) {
				x.st.Probe("built-by-convenience-constructor")
				return s
			}
		}
	}
	if n.Role == "exact" {
		return ddsketch.NewDDSketchWithExactSummaryStatistics(m, prov)
	}
	return ddsketch.NewDDSketchFromStoreProvider(m, prov)
}

func (x *fleetExec) addNode(n engine.Node) *knode {
	if _, ok := x.nodes[n.ID]; ok || n.ID <= 0 || !validSpec(&n) {
		return nil
	}
	if !refmodel.IsCollapsing(n.Store) {
		n.N = 0
	}
	m, err := buildMapping(&n)
	if err != nil || m == nil {
		return nil
	}
	k := &knode{spec: n, mapping: m, mkey: mapKey(&n), model: refmodel.NewRefSketch(n.Store, n.N)}
	k.real = x.newSketch(&n, m)
	if x.prop == "C14" {
		k.replica = x.newSketch(&n, m)
	}
	x.nodes[n.ID] = k
	x.order = append(x.order, n.ID)
	return k
}

func isNilSk(s sk) bool {
	switch v := s.(type) {
	case *ddsketch.DDSketch:
		return v == nil
	case *ddsketch.DDSketchWithExactSummaryStatistics:
		return v == nil
	}
	return s == nil
}

func (k *knode) each(f func(s sk)) {
	f(k.real)
	if k.twin != nil {
		f(k.twin)
	}
	if k.replica != nil {
		f(k.replica)
	}
}

func (x *fleetExec) sigFor(e engine.Event) string {
	s := e.Ev
	if e.S != "" {
		s += ":" + e.S
	}
	if n := x.nodes[e.N]; n != nil {
		s += "/" + n.spec.Role + "/" + n.spec.Store
	}
	if e.Ev == "merge" {
		if m := x.nodes[e.M]; m != nil {
			s += "/" + m.spec.Role + "/" + m.spec.Store
		}
	}
	return s
}

// route computes where the mapping sends a value: side +1/-1/0 and the index.
func route(m mapping.IndexMapping, v float64) (side, index int) {
	// documented: only values strictly closer to zero than MinIndexableValue go to the zero bucket
	if v >= m.MinIndexableValue() {
		return 1, m.Index(v)
	} else if v <= -m.MinIndexableValue() {
		return -1, m.Index(-v)
	}
	return 0, 0
}

// trackable: finite, not NaN, magnitude within the indexable range.
func trackable(m mapping.IndexMapping, v float64) bool {
	return !math.IsNaN(v) && math.Abs(v) <= m.MaxIndexableValue()
}

func (x *fleetExec) step(e engine.Event) {
	if x.hook.event(x, e) {
		return
	}
	if e.Ev == "concat" {
		x.concat(e)
		return
	}
	if e.Ev == "fault" {
		x.st.Fault(e.S)
		return
	}
	nd := x.nodes[e.N]
	if nd == nil {
		return
	}
	sig := x.sigFor(e)
	done := false
	if nd.dirty && e.Ev != "clear" {
		if x.prop == "C16" && e.Ev == "reweight" {
			x.reweightDirty(e, nd, sig)
		}
		return
	}
	if post := x.hook.before(x, e, nd); post != nil {
		defer post()
	}
	switch e.Ev {
	case "chmap":
		done = x.chmap(e, nd, sig)
	case "add", "addw":
		v, w := float64(e.V), float64(e.W)
		if e.Ev == "add" {
			w = 1
		}
		g, ok := refmodel.GranOf(w)
		if (!ok || g < -45) && x.prop == "C09" && w > 0 && w < 1e12 {
			// C09 quantifies over arbitrary non-negative float64 weights: the node becomes
			// tainted (DESIGN 4.7) and only bit-for-bit transport of bins is compared
			ok, g = true, 0
			nd.tainted = true
			nd.model.Tainted = true // sticky: sums of such weights can look dyadic again by chance
		}
		if !ok || !trackable(nd.mapping, v) || !nd.model.FitsAfter(w, g) {
			return
		}
		side, idx := route(nd.mapping, v)
		if side != 0 && w != 0 && !x.spanOK(nd, side, idx, idx) {
			return
		}
		nd.each(func(s sk) {
			x.lib("Add", sig, func() {
				var err error
				if e.Ev == "add" {
					err = s.Add(v)
				} else {
					err = s.AddWithCount(v, w)
				}
				if err != nil {
					x.fail("accepts-valid", sig, fmt.Sprintf("adding trackable value %v with weight %v was refused: %v", v, w, err), "accepted", err.Error())
				}
			})
		})
		nd.model.Absorb(v, w, side, idx)
		done = true
	case "merge":
		src := x.nodes[e.M]
		if src == nil || e.M == e.N || src.mkey != nd.mkey || (nd.exact() && !src.exact()) || src.dirty {
			return
		}
		if !x.mergeFitsNodes(nd, src) {
			return
		}
		x.mergeNodes(nd, src, sig)
		nd.model.MergeFrom(src.model)
		if src.tainted {
			nd.tainted = true
		}
		done = true
	case "copy":
		if _, exists := x.nodes[e.M]; exists || e.M <= 0 {
			return
		}
		c := &knode{spec: nd.spec, mapping: nd.mapping, mkey: nd.mkey, model: nd.model.Clone(), tainted: nd.tainted}
		c.spec.ID = e.M
		x.lib("Copy", sig, func() { c.real = copySk(nd.real) })
		if nd.replica != nil {
			x.lib("Copy(replica)", sig, func() { c.replica = copySk(nd.replica) })
		}
		if nd.twin != nil {
			x.lib("Copy(twin)", sig, func() { c.twin = copySk(nd.twin) })
		}
		c.peers = append(append([]int(nil), nd.peers...), e.N)
		for _, pid := range nd.peers {
			x.nodes[pid].peers = append(x.nodes[pid].peers, e.M)
		}
		nd.peers = append(nd.peers, e.M)
		x.nodes[e.M] = c
		x.order = append(x.order, e.M)
		done = true
	case "clear":
		nd.each(func(s sk) { x.lib("Clear", sig, func() { s.Clear() }) })
		nd.model.Clear()
		nd.tainted = false
		nd.dirty = false
		if x.prop == "C15" {
			nd.twin = x.newSketch(&nd.spec, nd.mapping)
		}
		done = true
	case "reweight":
		w := float64(e.W)
		if !(w > 0) || math.IsInf(w, 0) {
			return
		}
		if fr, _ := math.Frexp(w); fr != 0.5 {
			return
		}
		probe := nd.model.Clone()
		probe.Scale(w)
		if probe.Gran() < -45 || probe.ValGran < -45 || !probe.FitsAfter(0, 0) {
			return
		}
		nd.each(func(s sk) {
			x.lib("Reweight", sig, func() {
				if err := s.Reweight(w); err != nil {
					x.fail("accepts-valid", sig, fmt.Sprintf("Reweight(%v) refused: %v", w, err), "accepted", err.Error())
				}
			})
		})
		nd.model.Scale(w)
		done = true
	case "send":
		x.send(e, nd, sig)
		return
	case "deliver":
		done = x.deliver(e, nd, sig)
	case "query":
		x.hook.query(x, e, nd)
		return
	default:
		return
	}
	if done {
		x.noteState(e, nd)
		x.hook.after(x, e, nd)
	}
}

func copySk(s sk) sk {
	switch t := s.(type) {
	case *ddsketch.DDSketch:
		return t.Copy()
	case *ddsketch.DDSketchWithExactSummaryStatistics:
		return t.Copy()
	}
	panic("unknown sketch type")
}

func (x *fleetExec) mergeFits(dst, src *refmodel.RefSketch) bool {
	if pb := src.Pos.Bins(); len(pb) > 0 && !spanFitsAfter(dst.Pos, pb[0].Index, pb[len(pb)-1].Index) {
		return false
	}
	if nb := src.Neg.Bins(); len(nb) > 0 && !spanFitsAfter(dst.Neg, nb[0].Index, nb[len(nb)-1].Index) {
		return false
	}
	return dst.FitsAfter(src.Count(), src.Gran())
}

// mergeSk merges src into dst, whatever the variants (an exact receiver only
// takes exact arguments; a plain receiver takes the embedded plain sketch).
func (x *fleetExec) mergeSk(dst, src sk, sig string) {
	x.lib("MergeWith", sig, func() {
		var err error
		switch d := dst.(type) {
		case *ddsketch.DDSketch:
			err = d.MergeWith(plainOf(src))
		case *ddsketch.DDSketchWithExactSummaryStatistics:
			s, ok := src.(*ddsketch.DDSketchWithExactSummaryStatistics)
			if !ok {
				panic("harness: exact receiver with plain argument")
			}
			err = d.MergeWith(s)
		}
		if err != nil {
			x.fail("accepts-valid", sig, "merging sketches with equal mappings was refused: "+err.Error(), "accepted", err.Error())
		}
	})
}

func (x *fleetExec) mergeNodes(nd, src *knode, sig string) {
	x.mergeSk(nd.real, src.real, sig)
	if nd.twin != nil {
		x.mergeSk(nd.twin, src.real, sig)
	}
	if nd.replica != nil {
		x.mergeSk(nd.replica, src.replica, sig)
	}
}

func (x *fleetExec) noteState(e engine.Event, nd *knode) {
	h := engine.HashStr(0, nd.spec.Role+nd.spec.Store+nd.spec.Map)
	c := uint64(0)
	if nd.model.Zero > 0 {
		c |= 1
	}
	c |= uint64(log2class(len(nd.model.Pos.Exact))) << 4
	c |= uint64(log2class(len(nd.model.Neg.Exact))) << 12
	if _, f := nd.model.Pos.Edge(); f {
		c |= 2
	}
	if _, f := nd.model.Neg.Edge(); f {
		c |= 4
	}
	if nd.model.Count() < 1 && !nd.model.IsEmpty() {
		c |= 8
	}
	h = engine.Hash64(h ^ c)
	x.st.State(h)
	x.st.StateOp(engine.HashStr(h, e.Ev+e.S))
}

// ---- transport ---------------------------------------------------------------

func (x *fleetExec) send(e engine.Event, nd *knode, sig string) {
	id := int(e.J)
	if id <= 0 || x.msgs[id] != nil {
		return
	}
	m := &kmsg{form: e.S, model: nd.model.Clone(), spec: nd.spec, mkey: nd.mkey, exact: nd.exact(), sentAt: x.at, parts: 1, tainted: nd.tainted}
	if nd.tainted {
		m.spans = x.realSpans(nd.real)
	}
	var before *skSnap
	wantSnap := x.prop == "C06" || x.prop == "C09" || x.prop == "C14"
	if wantSnap {
		before = x.snapSketch(nd.real, "send-before")
	}
	switch e.S {
	case "bin", "binomit":
		pre := int(e.I)
		if pre < 0 || pre > 64 {
			pre = 0
		}
		spare := int(e.I%5) * 24
		backing := make([]byte, pre+spare+8)
		for i := range backing {
			backing[i] = 0xA5
		}
		buf := backing[: pre : pre+spare]
		x.lib("Encode", sig, func() { nd.real.Encode(&buf, e.S == "binomit") })
		if x.prop == "C06" {
			x.st.Oracle("append-only")
			for i := 0; i < pre; i++ {
				if buf[i] != 0xA5 {
					x.fail("append-only", sig, "Encode changed bytes that were already in the caller's buffer", "prefix untouched", fmt.Sprintf("byte %d = %#x", i, buf[i]))
				}
			}
			for i := pre + spare; i < len(backing); i++ {
				if backing[i] != 0xA5 {
					x.fail("append-only", sig, "Encode wrote beyond the capacity of the caller's buffer", "canary intact", fmt.Sprintf("byte %d = %#x", i, backing[i]))
				}
			}
			if len(buf) < pre {
				x.fail("append-only", sig, "Encode shortened the caller's buffer", fmt.Sprintf(">= %d", pre), fmt.Sprint(len(buf)))
			}
			x.st.ProbeIf(spare > 0 && len(buf) <= pre+spare && len(buf) > pre, "encoded-in-place-within-capacity")
			x.st.ProbeIf(len(buf) > pre+spare, "encoded-with-reallocation")
		}
		m.data = append([]byte(nil), buf[pre:]...)
		m.hasMapping = e.S == "bin"
	case "pb":
		var pb *sketchpb.DDSketch
		x.lib("ToProto", sig, func() { pb = plainOf(nd.real).ToProto() })
		b, err := proto.MarshalOptions{Deterministic: true}.Marshal(pb)
		if err != nil {
			panic(err)
		}
		m.data = b
		m.hasMapping = true
		m.live = pb
	case "pbstream":
		w := &simWriter{x: x, sig: sig}
		x.lib("EncodeProto", sig, func() { plainOf(nd.real).EncodeProto(w) })
		w.verify()
		m.data = w.buf.Bytes()
		m.hasMapping = true
		x.st.Probe("stream-writes")
	default:
		return
	}
	x.msgs[id] = m
	x.st.Probe("message-" + e.S)
	x.hook.sent(x, e, nd, m)
	if wantSnap {
		after := x.snapSketch(nd.real, "send-after")
		m.snap = after
		oracle := "encode-pure"
		if x.prop == "C14" {
			oracle = "single-read-pure"
		} else if x.prop == "C09" {
			oracle = "serialise-pure"
		}
		x.st.Oracle(oracle)
		if d := before.diff(after, nd.tainted); d != "" {
			x.fail(oracle, sig, "serialising ("+e.S+") changed the sketch's observable state: "+d, before.String(), after.String())
		}
	}
}

// simWriter is the simulator's io.Writer: it records every Write, copies the
// bytes (a writer may not retain the slice) and remembers a checksum of each
// chunk so that it can verify afterwards that the producer did not mutate
// bytes it had already handed over.
type simWriter struct {
	x      *fleetExec
	sig    string
	buf    bytes.Buffer
	writes int
}

func (w *simWriter) Write(p []byte) (int, error) {
	w.writes++
	w.buf.Write(p)
	return len(p), nil
}

func (w *simWriter) verify() {}

func (x *fleetExec) concat(e engine.Event) {
	id := int(e.J)
	if id <= 0 || x.msgs[id] != nil || len(e.L) == 0 {
		return
	}
	var out *kmsg
	for _, part := range e.L {
		m := x.msgs[int(part)]
		if m == nil || (m.form != "bin" && m.form != "binomit") {
			return
		}
		if out == nil {
			// the content of a frame is what its (possibly bounded) producer held; the concatenation itself is unbounded
			out = &kmsg{form: m.form, model: m.model.CloneAs(refmodel.Sparse, 0), spec: m.spec, mkey: m.mkey, exact: m.exact, sentAt: x.at, hasMapping: m.hasMapping}
			out.data = append([]byte(nil), m.data...)
			out.parts = m.parts
			continue
		}
		if m.mkey != out.mkey || m.exact != out.exact {
			return
		}
		if !out.model.FitsAfter(m.model.Count(), m.model.Gran()) {
			return // the concatenation as a whole must stay inside the exactness budget too
		}
		out.data = append(out.data, m.data...)
		out.model.MergeFrom(m.model)
		out.parts += m.parts
		if m.hasMapping {
			out.hasMapping = true
			if out.form == "binomit" {
				out.form = "bin"
			}
		}
	}
	x.msgs[id] = out
	x.st.Fault("concatenated-frames")
}

func (x *fleetExec) deliver(e engine.Event, nd *knode, sig string) bool {
	m := x.msgs[int(e.J)]
	if m == nil || m.mkey != nd.mkey {
		return false
	}
	if nd.exact() && !m.exact {
		// documented: the exact decoder cannot take a plain encoding. In C15 the refused decode is
		// performed all the same - its owner then clears the sketch and re-uses it.
		if (x.prop == "C15" || x.prop == "C16") && (m.form == "bin" || m.form == "binomit") && e.S == "merge" && !m.model.IsEmpty() && nd.twin == nil && nd.replica == nil && !nd.tainted && !m.tainted && x.mergeFits(nd.model, m.model) {
			var err error
			x.lib("DecodeAndMergeWith", sig, func() { err = nd.real.DecodeAndMergeWith(append([]byte(nil), m.data...)) })
			x.st.Probe("plain-encoding-offered-to-exact-sketch")
			// refused or not, the sketch is now in a state no property describes: only Clear brings it back
			nd.dirty = true
			if err != nil {
				x.st.Fault("refused-decode-left-partial-state")
			}
		}
		return false
	}
	if m.exact && !nd.exact() && (m.form == "bin" || m.form == "binomit") && x.prop != "C07" && x.prop != "C10" {
		return false
	}
	if (m.form == "pb" || m.form == "pbstream") && nd.exact() {
		return false
	}
	if m.tainted || nd.tainted {
		for i, side := range []int{1, -1} {
			if sp := m.spanOf(i); sp.ok && !x.spanOK(nd, side, sp.lo, sp.hi) {
				return false
			}
		}
		if !nd.model.FitsAfter(math.Max(m.model.ValTotal, m.model.Count()), minInt(m.model.Gran(), m.model.ValGran)) {
			return false
		}
	} else if !x.mergeFits(nd.model, m.model) {
		return false
	}
	if m.tainted {
		nd.tainted = true
	}
	m.deliveries++
	if m.deliveries > 1 {
		x.st.Fault("duplicate-delivery")
	}
	if x.at-m.sentAt > 1 {
		x.st.Fault("delayed-delivery")
	}
	mode := e.S
	if m.form == "pb" || m.form == "pbstream" {
		mode = "fresh"
	}
	decodeOracle := "decode-valid-encoding"
	if m.exact && !nd.exact() && x.prop == "C07" {
		decodeOracle = "plain-accepts-exact"
		x.st.Oracle(decodeOracle)
	}
	switch mode {
	case "merge":
		nd.each(func(s sk) {
			x.lib("DecodeAndMergeWith", sig, func() {
				if err := s.DecodeAndMergeWith(append([]byte(nil), m.data...)); err != nil {
					x.fail(decodeOracle, sig, "decoding a valid encoding into a sketch with the same mapping failed: "+err.Error(), "nil error", err.Error())
				}
			})
		})
		nd.model.MergeFrom(m.model)
		if m.model.TaintedAny() {
			nd.tainted = true
		}
	case "fresh", "reuse":
		var d sk
		var dm *refmodel.RefSketch
		prov := providerFor(nd.spec.Store, nd.spec.N)
		if mode == "reuse" {
			if nd.scratchPos == nil {
				nd.scratchPos, nd.scratchNeg = newRealStore(nd.spec.Store, nd.spec.N), newRealStore(nd.spec.Store, nd.spec.N)
			} else {
				x.lib("Clear(scratch)", sig, func() { nd.scratchPos.Clear(); nd.scratchNeg.Clear() })
				x.st.Probe("decode-into-cleared-reused-stores")
			}
			calls := 0
			prov = func() store.Store {
				calls++
				if calls == 1 {
					return nd.scratchPos
				}
				return nd.scratchNeg
			}
		}
		switch m.form {
		case "bin", "binomit", "foreign":
			// without a mapping block the caller must supply the mapping; with one it may
			var im mapping.IndexMapping
			if !m.hasMapping || e.I%2 == 1 {
				im = nd.mapping
			}
			x.lib("Decode", sig, func() {
				var err error
				if nd.exact() {
					d, err = ddsketch.DecodeDDSketchWithExactSummaryStatistics(append([]byte(nil), m.data...), prov, im)
				} else {
					d, err = ddsketch.DecodeDDSketch(append([]byte(nil), m.data...), prov, im)
				}
				if err != nil {
					x.fail(decodeOracle, sig, "decoding a valid encoding failed: "+err.Error(), "nil error", err.Error())
				}
			})
		case "pb", "pbstream":
			pb := &sketchpb.DDSketch{}
			if err := proto.Unmarshal(m.data, pb); err != nil {
				x.fail("proto-unmarshal", sig, "bytes produced by the sketch do not unmarshal: "+err.Error(), "valid protobuf", fmt.Sprintf("%x", m.data))
			}
			if m.live != nil && int(e.J)%2 == 0 {
				pb = m.live // the object itself travelled (in-process hand-over), not its bytes
				x.st.Probe("delivered-live-proto-object")
			}
			x.lib("FromProtoWithStoreProvider", sig, func() {
				var err error
				d, err = ddsketch.FromProtoWithStoreProvider(pb, prov)
				if err != nil {
					x.fail("decode-valid-encoding", sig, "rebuilding a sketch from its own protobuf message failed: "+err.Error(), "nil error", err.Error())
				}
			})
		}
		dm = m.model.CloneAs(nd.spec.Store, nd.spec.N)
		x.hook.decoded(x, e, nd, m, d, dm)
		x.mergeSk(nd.real, d, sig)
		if nd.twin != nil {
			x.mergeSk(nd.twin, d, sig)
		}
		if nd.replica != nil {
			x.mergeSk(nd.replica, d, sig)
		}
		nd.model.MergeFrom(dm)
		if dm.TaintedAny() {
			nd.tainted = true
		}
	default:
		return false
	}
	x.st.Probe("delivered-" + m.form + "-" + mode)
	return true
}

// ---- snapshots -----------------------------------------------------------------

var snapGrid = []float64{0, 0.01, 0.1, 0.25, 0.5, 0.75, 0.9, 0.99, 1}

type vbin struct{ V, C float64 }

// skSnap is the full observable state of a sketch through its public API.
type skSnap struct {
	Count, Zero, Sum float64
	// SumExact: the sum comes from exact summary statistics; the plain sketch's
	// approximate sum is accumulated in iteration order, which for the sparse
	// store is the map order, so with mixed signs it may differ arbitrarily from
	// call to call (cancellation); it is a function of the bins, which are compared.
	SumExact       bool
	Empty          bool
	Min, Max       float64
	MinErr, MaxErr bool
	Quant          []float64
	QuantErr       bool
	Batch          []float64
	BatchErr       bool
	Each           []vbin
	Pos, Neg       *storeSnap
}

func fbits(f float64) uint64 {
	if math.IsNaN(f) {
		return 0x7ff8000000000001
	}
	return math.Float64bits(f)
}

func (x *xctx) snapSketch(s sk, op string) *skSnap {
	sn := &skSnap{}
	_, sn.SumExact = s.(*ddsketch.DDSketchWithExactSummaryStatistics)
	x.lib(op+"/GetCount", "", func() { sn.Count = s.GetCount() })
	x.lib(op+"/GetZeroCount", "", func() { sn.Zero = s.GetZeroCount() })
	x.lib(op+"/GetSum", "", func() { sn.Sum = s.GetSum() })
	x.lib(op+"/IsEmpty", "", func() { sn.Empty = s.IsEmpty() })
	x.lib(op+"/GetMinValue", "", func() {
		v, err := s.GetMinValue()
		sn.Min, sn.MinErr = v, err != nil
	})
	x.lib(op+"/GetMaxValue", "", func() {
		v, err := s.GetMaxValue()
		sn.Max, sn.MaxErr = v, err != nil
	})
	x.lib(op+"/GetValueAtQuantile", "", func() {
		for _, q := range snapGrid {
			v, err := s.GetValueAtQuantile(q)
			if err != nil {
				sn.QuantErr = true
			}
			sn.Quant = append(sn.Quant, v)
		}
	})
	x.lib(op+"/GetValuesAtQuantiles", "", func() {
		v, err := s.GetValuesAtQuantiles(snapGrid)
		sn.Batch, sn.BatchErr = v, err != nil
	})
	x.lib(op+"/ForEach", "", func() {
		s.ForEach(func(v, c float64) bool {
			sn.Each = append(sn.Each, vbin{v, c})
			return false
		})
	})
	sort.Slice(sn.Each, func(i, j int) bool { // a total order, also for equal, infinite or NaN values
		a, b := sn.Each[i], sn.Each[j]
		if a.V < b.V || b.V < a.V {
			return a.V < b.V
		}
		if fbits(a.V) != fbits(b.V) {
			return fbits(a.V) < fbits(b.V)
		}
		return fbits(a.C) < fbits(b.C)
	})
	sn.Pos = x.snapStore(s.GetPositiveValueStore(), op+"/pos")
	sn.Neg = x.snapStore(s.GetNegativeValueStore(), op+"/neg")
	return sn
}

// diff returns the first difference, or "". tolerant skips the comparisons
// that are not deterministic for weights that are not exactly summable
// (DESIGN 4.7): quantile answers, totals and sums.
func (a *skSnap) diff(b *skSnap, tolerant bool) string {
	if !tolerant {
		switch {
		case fbits(a.Count) != fbits(b.Count):
			return fmt.Sprintf("GetCount %v vs %v", a.Count, b.Count)
		case a.SumExact && fbits(a.Sum) != fbits(b.Sum):
			return fmt.Sprintf("GetSum %v vs %v", a.Sum, b.Sum)
		}
	}
	switch {
	case fbits(a.Zero) != fbits(b.Zero):
		return fmt.Sprintf("GetZeroCount %v vs %v", a.Zero, b.Zero)
	case a.Empty != b.Empty:
		return fmt.Sprintf("IsEmpty %v vs %v", a.Empty, b.Empty)
	case a.MinErr != b.MinErr || fbits(a.Min) != fbits(b.Min):
		return fmt.Sprintf("GetMinValue %v(err=%v) vs %v(err=%v)", a.Min, a.MinErr, b.Min, b.MinErr)
	case a.MaxErr != b.MaxErr || fbits(a.Max) != fbits(b.Max):
		return fmt.Sprintf("GetMaxValue %v(err=%v) vs %v(err=%v)", a.Max, a.MaxErr, b.Max, b.MaxErr)
	case a.QuantErr != b.QuantErr:
		return fmt.Sprintf("GetValueAtQuantile error %v vs %v", a.QuantErr, b.QuantErr)
	case a.BatchErr != b.BatchErr:
		return fmt.Sprintf("GetValuesAtQuantiles error %v vs %v", a.BatchErr, b.BatchErr)
	}
	if !tolerant {
		for i := range a.Quant {
			if i < len(b.Quant) && fbits(a.Quant[i]) != fbits(b.Quant[i]) {
				return fmt.Sprintf("GetValueAtQuantile(%v) %v vs %v", snapGrid[i], a.Quant[i], b.Quant[i])
			}
		}
		if len(a.Batch) != len(b.Batch) {
			return fmt.Sprintf("GetValuesAtQuantiles length %d vs %d", len(a.Batch), len(b.Batch))
		}
		for i := range a.Batch {
			if fbits(a.Batch[i]) != fbits(b.Batch[i]) {
				return fmt.Sprintf("GetValuesAtQuantiles[%v] %v vs %v", snapGrid[i], a.Batch[i], b.Batch[i])
			}
		}
	}
	if len(a.Each) != len(b.Each) {
		return fmt.Sprintf("ForEach visits %d vs %d bins", len(a.Each), len(b.Each))
	}
	for i := range a.Each {
		if fbits(a.Each[i].V) != fbits(b.Each[i].V) || !weightEq(a.Each[i].C, b.Each[i].C, tolerant) {
			return fmt.Sprintf("ForEach bin #%d (%v,%v) vs (%v,%v)", i, a.Each[i].V, a.Each[i].C, b.Each[i].V, b.Each[i].C)
		}
	}
	if tolerant {
		if d := diffStoreTolerant(a.Pos, b.Pos); d != "" {
			return "positive store: " + d
		}
		if d := diffStoreTolerant(a.Neg, b.Neg); d != "" {
			return "negative store: " + d
		}
		return ""
	}
	if d := a.Pos.diff(b.Pos); d != "" {
		return "positive store: " + d
	}
	if d := a.Neg.diff(b.Neg); d != "" {
		return "negative store: " + d
	}
	return ""
}

// weightEq: bit equality in the exact regime; with weights that are not exactly
// summable (after a mapping change) a bin is the sum of fractions accumulated
// in the source's iteration order, so two executions of the same history may
// differ by rounding (DESIGN 4.7).
func weightEq(a, b float64, tolerant bool) bool {
	if fbits(a) == fbits(b) {
		return true
	}
	return tolerant && math.Abs(a-b) <= 1e-9*math.Max(math.Abs(a), math.Abs(b))
}

func diffStoreTolerant(a, b *storeSnap) string {
	switch {
	case a.Empty != b.Empty:
		return fmt.Sprintf("IsEmpty %v vs %v", a.Empty, b.Empty)
	case a.MinErr != b.MinErr || (!a.MinErr && a.Min != b.Min):
		return fmt.Sprintf("MinIndex %d(err=%v) vs %d(err=%v)", a.Min, a.MinErr, b.Min, b.MinErr)
	case a.MaxErr != b.MaxErr || (!a.MaxErr && a.Max != b.Max):
		return fmt.Sprintf("MaxIndex %d(err=%v) vs %d(err=%v)", a.Max, a.MaxErr, b.Max, b.MaxErr)
	case !weightEq(a.Total, b.Total, true):
		return fmt.Sprintf("TotalCount %v vs %v", a.Total, b.Total)
	case len(a.Bins) != len(b.Bins):
		return fmt.Sprintf("%d vs %d non-empty bins", len(a.Bins), len(b.Bins))
	}
	for i := range a.Bins {
		if a.Bins[i].Index != b.Bins[i].Index || !weightEq(a.Bins[i].Count, b.Bins[i].Count, true) {
			return fmt.Sprintf("bin #%d %d:%v vs %d:%v", i, a.Bins[i].Index, a.Bins[i].Count, b.Bins[i].Index, b.Bins[i].Count)
		}
	}
	return ""
}

func (a *skSnap) String() string {
	var sb strings.Builder
	fmt.Fprintf(&sb, "count=%v zero=%v sum=%v empty=%v min=%v(err=%v) max=%v(err=%v) q=%v(err=%v) pos=%s neg=%s",
		a.Count, a.Zero, a.Sum, a.Empty, a.Min, a.MinErr, a.Max, a.MaxErr, a.Quant, a.QuantErr, refmodel.BinsString(a.Pos.Bins), refmodel.BinsString(a.Neg.Bins))
	return sb.String()
}

func (a *skSnap) hash() uint64 {
	h := fbits(a.Count) ^ engine.Hash64(fbits(a.Zero))
	for _, q := range a.Quant {
		h = engine.Hash64(h ^ fbits(q))
	}
	return engine.Hash64(h ^ a.Pos.hash() ^ engine.Hash64(a.Neg.hash()))
}

// compareContent checks bins, zero weight and count of a real sketch against
// the reference model with ==.
func (x *fleetExec) compareContent(s sk, m *refmodel.RefSketch, oracle, sig, what string) {
	x.st.Oracle(oracle)
	pos := x.snapStore(s.GetPositiveValueStore(), "content/pos")
	neg := x.snapStore(s.GetNegativeValueStore(), "content/neg")
	x.st.Note(pos.hash() ^ engine.Hash64(neg.hash()))
	if d := refmodel.DiffBins(m.Pos.Bins(), pos.Bins); d != "" {
		x.fail(oracle, sig, what+": positive bins differ: "+d, refmodel.BinsString(m.Pos.Bins()), refmodel.BinsString(pos.Bins))
	}
	if d := refmodel.DiffBins(m.Neg.Bins(), neg.Bins); d != "" {
		x.fail(oracle, sig, what+": negative bins differ: "+d, refmodel.BinsString(m.Neg.Bins()), refmodel.BinsString(neg.Bins))
	}
	var zero, count float64
	x.lib("GetZeroCount", sig, func() { zero = s.GetZeroCount() })
	x.lib("GetCount", sig, func() { count = s.GetCount() })
	if zero != m.Zero {
		x.fail(oracle, sig, what+": zero weight differs", fmt.Sprint(m.Zero), fmt.Sprint(zero))
	}
	if count != m.Count() {
		x.fail(oracle, sig, what+": count differs", fmt.Sprint(m.Count()), fmt.Sprint(count))
	}
}

func sortedNodeIDs(x *fleetExec) []int {
	ids := append([]int(nil), x.order...)
	sort.Ints(ids)
	return ids
}

// ---- budgets for nodes whose model no longer describes the bins (tainted) ------------------

type ispan struct {
	lo, hi int
	ok     bool
}

func (x *fleetExec) realSpan(st store.Store) ispan {
	var lo, hi int
	var e1, e2 error
	x.lib("MinIndex", "", func() { lo, e1 = st.MinIndex() })
	x.lib("MaxIndex", "", func() { hi, e2 = st.MaxIndex() })
	return ispan{lo, hi, e1 == nil && e2 == nil}
}

func (x *fleetExec) realSpans(s sk) [2]ispan {
	return [2]ispan{x.realSpan(s.GetPositiveValueStore()), x.realSpan(s.GetNegativeValueStore())}
}

// spanOf returns the span of one side of a message (0 positive, 1 negative).
func (m *kmsg) spanOf(side int) ispan {
	if m.tainted {
		return m.spans[side]
	}
	st := m.model.Pos
	if side == 1 {
		st = m.model.Neg
	}
	b := st.Bins()
	if len(b) == 0 {
		return ispan{}
	}
	return ispan{b[0].Index, b[len(b)-1].Index, true}
}

// spanOK: would the node's store on that side stay inside its span budget
// after also holding lo..hi? Tainted nodes are measured on the real store.
func (x *fleetExec) spanOK(nd *knode, side int, lo, hi int) bool {
	ms := nd.model.Pos
	if side < 0 {
		ms = nd.model.Neg
	}
	if !nd.tainted {
		return spanFitsAfter(ms, lo, hi)
	}
	b := spanBudget(nd.spec.Store)
	if b == math.MaxInt64 {
		return true
	}
	st := nd.real.GetPositiveValueStore()
	if side < 0 {
		st = nd.real.GetNegativeValueStore()
	}
	cur := x.realSpan(st)
	if cur.ok {
		if cur.lo < lo {
			lo = cur.lo
		}
		if cur.hi > hi {
			hi = cur.hi
		}
	}
	return hi-lo < b
}

func (x *fleetExec) mergeFitsNodes(dst, src *knode) bool {
	if !dst.tainted && !src.tainted {
		return x.mergeFits(dst.model, src.model)
	}
	var spans [2]ispan
	if src.tainted {
		spans = x.realSpans(src.real)
	} else {
		m := &kmsg{model: src.model}
		spans = [2]ispan{m.spanOf(0), m.spanOf(1)}
	}
	for i, side := range []int{1, -1} {
		if spans[i].ok && !x.spanOK(dst, side, spans[i].lo, spans[i].hi) {
			return false
		}
	}
	return dst.model.FitsAfter(math.Max(src.model.ValTotal, src.model.Count()), minInt(src.model.Gran(), src.model.ValGran))
}

// reweightDirty: C16 on a sketch whose model is unknown (a decode into it was refused half-way
// or silently accepted without statistics): whatever it holds, every bin, the zero weight and the
// count must scale by the factor. Only small powers of two are applied.
func (x *fleetExec) reweightDirty(e engine.Event, nd *knode, sig string) {
	w := float64(e.W)
	if fr, ex := math.Frexp(w); fr != 0.5 || ex < -3 || ex > 5 || !(w > 0) {
		return
	}
	before := x.snapSketch(nd.real, "reweight-before")
	var err error
	x.lib("Reweight", sig, func() { err = nd.real.Reweight(w) })
	if err != nil {
		x.fail("accepts-valid", sig, fmt.Sprintf("Reweight(%v) refused: %v", w, err), "accepted", err.Error())
	}
	after := x.snapSketch(nd.real, "reweight-after")
	x.st.Oracle("bins-scaled")
	x.st.Probe("reweight-of-a-sketch-with-unknown-model")
	for name, pair := range map[string][2]*storeSnap{"positive": {before.Pos, after.Pos}, "negative": {before.Neg, after.Neg}} {
		b, a := pair[0], pair[1]
		if len(b.Bins) != len(a.Bins) {
			x.fail("support-unchanged", sig, "Reweight made a bin appear or disappear on the "+name+" side", refmodel.BinsString(b.Bins), refmodel.BinsString(a.Bins))
		}
		for i := range b.Bins {
			if b.Bins[i].Index != a.Bins[i].Index || a.Bins[i].Count != b.Bins[i].Count*w {
				x.fail("bins-scaled", sig, fmt.Sprintf("%s bin %d: weight %v did not become %v", name, b.Bins[i].Index, b.Bins[i].Count, b.Bins[i].Count*w), fmt.Sprint(b.Bins[i].Count*w), refmodel.BinsString(a.Bins))
			}
		}
	}
	if after.Zero != before.Zero*w {
		x.fail("zero-and-count-scaled", sig, "the zero weight did not scale by the factor", fmt.Sprint(before.Zero*w), fmt.Sprint(after.Zero))
	}
	// totals beyond 2^53 are sums that round: the paginated store regroups them when a re-weighting turns
	// its unit entries into page weights, so they scale only up to an ulp (DESIGN 15.4-24) - not compared
	nd.twin = nil
}
