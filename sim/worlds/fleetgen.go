package worlds

import (
	"math"

	"github.com/DataDog/sketches-go/ddsketch/mapping"

	"verif/sim/engine"
	"verif/sim/refmodel"
)

// fleetProfile parametrises the W-fleet workload generator per property.
type fleetProfile struct {
	prop       string
	stores     []string // allowed store kinds
	roles      []string // sketch | exact
	minNodes   int
	maxNodes   int
	shareMap   bool     // all nodes share one mapping (merge-able fleet)
	weights    []string // weight regimes to draw from: unit | int | frac | tiny
	ops        map[string]int
	forms      []string // wire forms for send
	modes      []string // deliver modes
	queryEvery int      // percent chance of a query after a mutation
	maxOps     int
	valueSigns []string // pos | neg | mixed | zeros
	moderate   bool     // values stay well inside the indexable range (unit conversions)
	concat     bool
	intruder   bool // one more node with another mapping
	afterSend  func(g *fleetGen, n *fgNode, msg int, form string)
	extra      func(g *fleetGen) // property-specific actors
	// ultrafine: a few runs use accuracies of 1e-7..4e-7 on stores without an array over the index
	// span (sparse, collapsing): neighbouring bins can then be more than 2^31 indexes apart
	ultrafine bool
}

type fgNode struct {
	id         int
	spec       engine.Node
	m          mapping.IndexMapping
	n          int     // values added so far (approximate count, for aiming q)
	last       float64 // last value
	centre     float64
	spreadBins float64
}

type fleetGen struct {
	r          *engine.PRNG
	p          *engine.Plan
	q          *engine.SimQ
	prof       *fleetProfile
	nodes      []*fgNode
	nextID     int
	nextMsg    int
	regime     string
	signs      string
	opsLeft    int
	weightsTab []int
	opNames    []string
	msgForms   map[int]string
	msgOwner   map[int]*fgNode
	binMsgs    []int
	ultra      bool
	moderate   bool
}

func (g *fleetGen) emit(e engine.Event) {
	e.T = g.q.Now
	g.p.Events = append(g.p.Events, e)
}

var mappingKinds = []string{"log", "lin", "cub"}

// drawAlpha: log-uniform over [1e-6, 0.99] with the common accuracies favoured.
func drawAlpha(r *engine.PRNG) float64 {
	switch r.Pick(35, 25, 25, 10, 5) {
	case 0:
		return []float64{0.01, 0.02, 0.05, 0.001, 0.1}[r.Intn(5)]
	case 1:
		return r.LogUniform(1e-3, 0.2)
	case 2:
		return r.LogUniform(1e-6, 0.99)
	case 3:
		return r.LogUniform(0.2, 0.99)
	default:
		return r.LogUniform(1e-6, 1e-4)
	}
}

// drawMappingSpec fills the mapping part of a node spec; sometimes the mapping
// is built from its base and an arbitrary offset, as decoders do.
func drawMappingSpec(r *engine.PRNG, n *engine.Node) {
	n.Map = mappingKinds[r.Intn(3)]
	n.Alpha = engine.F64(drawAlpha(r))
	n.ByGam = false
	if r.Pct(6) {
		// a mapping built directly from a "round" base, as a user of NewXMappingWithGamma would:
		// 1/log2(base) is then exact and bin edges fall on powers of two
		n.ByGam = true
		n.Gamma = engine.F64([]float64{2, 4, math.Sqrt2, math.Pow(2, 1.0/4), math.Pow(2, 1.0/8), math.Pow(2, 1.0/32), math.Pow(2, 1.0/64), 1.5, 1.02}[r.Intn(9)])
		n.Offset = engine.F64([]float64{0, 0, 1, -3, 0.5}[r.Intn(5)])
		n.Alpha = 0.5 // placeholder, replaced by the accuracy this base gives
		if m, err := buildMapping(n); err == nil {
			n.Alpha = engine.F64(m.RelativeAccuracy())
		}
		return
	}
	if r.Pct(25) {
		m, err := buildMapping(n)
		if err != nil {
			return
		}
		pb := m.ToProto()
		n.ByGam = true
		n.Gamma = engine.F64(pb.Gamma)
		switch r.Pick(3, 3, 2, 1, 1) {
		case 0:
			n.Offset = engine.F64(pb.IndexOffset)
		case 1:
			n.Offset = engine.F64(float64(r.Range(-1000, 1000)) + r.Float64())
		case 2:
			n.Offset = engine.F64(float64(r.Range(-100000, 100000)))
		case 3:
			n.Offset = 0
		default: // an integer (often 0) plus a rounding residue
			k := 0.0
			if r.Pct(40) {
				k = float64(r.Range(-40, 40))
			}
			n.Offset = engine.F64(k + []float64{0.1 + 0.2 - 0.3, -1e-13, 1e-15, 4e-13, -3e-16, 2e-14}[r.Intn(6)])
		}
	}
}

func (g *fleetGen) mkNode(role, kind string, mapFrom *engine.Node) *fgNode {
	spec := engine.Node{ID: g.nextID, Role: role, Store: kind}
	g.nextID++
	if refmodel.IsCollapsing(kind) {
		spec.N = []int{1, 2, 3, 4, 8, 16, 100, 2048}[g.r.Pick(1, 1, 1, 2, 3, 4, 6, 6)]
	}
	if mapFrom != nil {
		spec.Map, spec.Alpha, spec.ByGam, spec.Gamma, spec.Offset = mapFrom.Map, mapFrom.Alpha, mapFrom.ByGam, mapFrom.Gamma, mapFrom.Offset
	} else {
		drawMappingSpec(g.r, &spec)
		if g.ultra {
			spec.Map, spec.ByGam = mappingKinds[g.r.Intn(3)], false
			spec.Alpha = engine.F64(g.r.LogUniform(1e-7, 4e-7))
		}
		if g.prof.prop == "C13" && g.r.Pct(8) {
			// an index offset close to the int32 extremes: the 32-bit bound on the index, not the float
			// range, then limits the indexable values
			if m0, err := buildMapping(&spec); err == nil {
				spec.ByGam, spec.Gamma = true, engine.F64(m0.ToProto().Gamma)
				spec.Offset = engine.F64(float64(math.MaxInt32 - g.r.Range(0, 20000)))
				if g.r.Pct(40) {
					spec.Offset = -spec.Offset
				}
			}
		}
		if g.prof.prop == "C19" && !spec.ByGam && g.r.Pct(10) {
			// the fine end of the accuracy range: neighbouring bases 1+2*alpha differ by little
			spec.Alpha = engine.F64(g.r.LogUniform(1e-6, 1e-5))
		}
	}
	m, err := buildMapping(&spec)
	if err != nil {
		panic(err)
	}
	spec.Ctor = g.r.Pct(15)
	n := &fgNode{id: spec.ID, spec: spec, m: m}
	g.aim(n)
	g.nodes = append(g.nodes, n)
	g.p.Nodes = append(g.p.Nodes, spec)
	return n
}

// aim chooses the centre magnitude and the dynamic range (in bins) of the
// values a node will see. The range is bounded by the span budget of the
// node's store; the executor enforces the budget in any case.
func (g *fleetGen) aim(n *fgNode) {
	r := g.r
	lo, hi := n.m.MinIndexableValue(), n.m.MaxIndexableValue()
	switch r.Pick(55, 20, 10, 10, 5) {
	case 0:
		n.centre = r.LogUniform(1e-3, 1e6)
	case 1:
		n.centre = math.Exp(math.Log(lo) + r.Float64()*(math.Log(hi)-math.Log(lo)))
	case 2:
		n.centre = lo * r.LogUniform(1, 1e3)
	case 3:
		n.centre = hi / r.LogUniform(1, 1e3)
	default:
		n.centre = 1
	}
	if g.moderate {
		n.centre = r.LogUniform(1e-4, 1e6)
	}
	if n.centre < lo {
		n.centre = lo
	}
	if n.centre > hi {
		n.centre = hi
	}
	budget := 6000.0
	switch n.spec.Store {
	case refmodel.Sparse:
		budget = 1e7
	case refmodel.Paginated:
		budget = 50000
	}
	n.spreadBins = []float64{1, 4, 30, 300, 3000, 30000, 3e5, 3e6}[r.Pick(8, 12, 20, 20, 15, 12, 8, 5)]
	if n.spreadBins > budget {
		n.spreadBins = budget
	}
}

func nudge(v float64, k int) float64 {
	for ; k > 0; k-- {
		v = math.Nextafter(v, math.Inf(1))
	}
	for ; k < 0; k++ {
		v = math.Nextafter(v, math.Inf(-1))
	}
	return v
}

// value draws one trackable value for node n.
func (g *fleetGen) value(n *fgNode) float64 {
	r := g.r
	lo, hi := n.m.MinIndexableValue(), n.m.MaxIndexableValue()
	alpha := float64(n.spec.Alpha)
	lnGamma := math.Log((1 + alpha) / (1 - alpha))
	mag := func() float64 {
		v := n.centre * math.Exp(lnGamma*n.spreadBins*(r.Float64()-0.5))
		if v < lo {
			v = lo
		}
		if v > hi {
			v = hi
		}
		return v
	}
	var v float64
	pick := r.Pick(50, 20, 8, 6, 6, 4, 6)
	if g.moderate && (pick == 4 || pick == 5) {
		pick = 0
	}
	switch pick {
	case 0:
		v = mag()
	case 1: // aimed at a bin edge, within a few ulps (the implementation is used to aim, never to judge)
		i := n.m.Index(mag())
		e := n.m.LowerBound(i + r.Intn(2))
		v = nudge(e, r.Range(-4, 4))
		if !(v >= lo) {
			v = lo
		}
		if v > hi {
			v = hi
		}
	case 2:
		if n.n > 0 {
			v = math.Abs(n.last)
		} else {
			v = mag()
		}
	case 3: // zero bucket: zeros and sub-minimum magnitudes
		switch r.Intn(4) {
		case 0:
			v = 0
		case 1:
			v = lo * r.Float64()
		case 2:
			v = nudge(lo, -r.Range(0, 2))
		default:
			v = math.SmallestNonzeroFloat64 * float64(r.Range(1, 100))
		}
	case 4: // smallest indexable magnitudes
		v = nudge(lo, r.Range(0, 3))
		if r.Pct(50) {
			v = lo * (1 + r.Float64()*alpha)
		}
	case 5: // largest indexable magnitudes
		v = nudge(hi, -r.Range(0, 3))
		if r.Pct(50) {
			v = hi / (1 + r.Float64()*alpha)
		}
	default:
		v = float64(r.Range(1, 1000))
		if r.Pct(35) { // powers of two and their float neighbours: binade boundaries of the interpolated mappings
			v = nudge(math.Ldexp(1, r.Range(-12, 12)), r.Range(-2, 2))
			if r.Pct(30) {
				_, e := math.Frexp(n.centre)
				v = nudge(math.Ldexp(1, e+r.Range(-2, 2)), r.Range(-2, 2))
			}
		}
		if v < lo || v > hi {
			v = mag()
		}
	}
	switch g.signs {
	case "neg":
		v = -v
	case "mixed":
		if r.Pct(45) {
			v = -v
		}
	case "zeros":
		switch r.Pick(5, 2, 3) {
		case 0:
			v = 0
			if r.Pct(30) {
				v = math.Copysign(0, -1)
			}
		case 1:
			v = -v
		}
	case "zeroneg":
		if r.Pct(40) {
			v = 0
		} else {
			v = -v
		}
	}
	n.last = v
	return v
}

// quantiles draws a list of quantiles aimed at node n: 0, 1, every k/(n-1) and
// its float neighbours, uniform.
func (g *fleetGen) quantiles(n *fgNode, count int) []engine.F64 {
	r := g.r
	out := make([]engine.F64, 0, count)
	for len(out) < count {
		var q float64
		switch r.Pick(10, 10, 40, 30, 10) {
		case 0:
			q = 0
		case 1:
			q = 1
		case 2:
			if n.n > 1 {
				q = float64(r.Intn(n.n)) / float64(n.n-1)
				q = nudge(q, r.Range(-1, 1))
			} else {
				q = r.Float64()
			}
		case 3:
			q = r.Float64()
		default:
			q = []float64{0.5, 0.25, 0.75, 0.9, 0.99, 0.999, 0.001}[r.Intn(7)]
		}
		if q < 0 {
			q = 0
		}
		if q > 1 {
			q = 1
		}
		out = append(out, engine.F64(q))
	}
	return out
}

func (g *fleetGen) weight() float64 {
	r := g.r
	switch g.regime {
	case "arb": // arbitrary non-negative float64 weights (C09)
		if r.Pct(8) { // next to 1 without being 1 (unit weights have a representation of their own in some stores)
			return []float64{nudge(1, 1), nudge(1, -1), nudge(1, 3), 0.1 + 0.2 + 0.3 + 0.4, 1 + 1e-13, 1 - 1e-13}[r.Intn(6)]
		}
		switch r.Pick(5, 3, 2) {
		case 0:
			return r.Float64() * 100
		case 1:
			return r.LogUniform(1e-9, 1e9)
		default:
			return float64(r.Range(1, 9)) / 3
		}
	case "fine": // counts whose varfloat64 encodings (of count+1) take all nine bytes: the lowest mantissa bits are set
		return float64(r.Range(0, 60)) + float64(r.Range(1, 7))*math.Ldexp(1, -r.Range(43, 45))
	case "tiny": // total weight below one is reachable
		return float64(r.Range(1, 16)) * math.Ldexp(1, -r.Range(4, 10))
	case "wide": // dyadic in (0, 2^20]
		switch r.Pick(4, 3, 3) {
		case 0:
			return float64(r.Range(1, 64)) * math.Ldexp(1, -r.Range(1, 10))
		case 1:
			return float64(r.Range(1, 100))
		default:
			return math.Ldexp(1, r.Range(0, 20))
		}
	}
	return dyadicWeight(r, g.regime)
}

// GenFleet returns the generator of a profile.
func GenFleet(prof *fleetProfile) func(r *engine.PRNG, run int, tier string) *engine.Plan {
	return func(r *engine.PRNG, run int, tier string) *engine.Plan {
		g := &fleetGen{r: r, p: &engine.Plan{Config: map[string]string{}}, q: &engine.SimQ{}, prof: prof, nextID: 1, nextMsg: 1,
			msgForms: map[int]string{}, msgOwner: map[int]*fgNode{}}
		p := g.p
		g.regime = prof.weights[r.Intn(len(prof.weights))]
		g.signs = prof.valueSigns[r.Intn(len(prof.valueSigns))]
		p.Config["weights"] = g.regime
		if g.regime == "fine" {
			p.Config["budget"] = "52"
		}
		p.Config["signs"] = g.signs
		p.Config["maporder"] = []string{"asc", "desc", "keyed", "shuffle"}[r.Pick(3, 2, 3, 2)]
		switch r.Pick(400, 350, 247, 3) {
		case 0:
			g.opsLeft = r.Range(3, 12)
		case 1:
			g.opsLeft = r.Range(12, 40)
		case 2:
			g.opsLeft = r.Range(40, prof.maxOps)
		default: // a long history: many compactions, array growths, pages, collapses
			g.opsLeft = r.Range(5*prof.maxOps, 15*prof.maxOps)
			switch prof.prop {
			case "C12", "C14", "C15", "C16", "C08": // a full snapshot (or a sweep) after every event: keep the quadratic cost bounded
				g.opsLeft = r.Range(3*prof.maxOps, 6*prof.maxOps)
			}
			p.Config["history"] = "long"
		}
		nNodes := r.Range(prof.minNodes, prof.maxNodes)
		var shared *engine.Node
		g.moderate = prof.moderate
		if prof.prop == "C10" && r.Pct(25) {
			g.moderate = false // values up to the ends of the indexable range: exact sums can overflow
		}
		g.ultra = prof.ultrafine && r.Pct(3)
		if g.ultra {
			p.Config["ultrafine"] = "1"
		}
		for i := 0; i < nNodes; i++ {
			role := prof.roles[r.Intn(len(prof.roles))]
			kind := prof.stores[r.Intn(len(prof.stores))]
			if g.ultra {
				kind = []string{refmodel.Sparse, refmodel.Sparse, refmodel.CLow, refmodel.CHigh}[r.Intn(4)]
			}
			n := g.mkNode(role, kind, shared)
			if prof.shareMap && shared == nil {
				s := n.spec
				shared = &s
			}
			if prof.shareMap && i > 0 {
				n.centre, n.spreadBins = g.nodes[0].centre, g.nodes[0].spreadBins
				if r.Pct(30) {
					g.aim(n)
				}
			}
		}
		if prof.intruder && r.Pct(60) {
			if shared != nil && r.Pct(45) {
				// same kind and base, another index offset (sometimes exactly 0): only the offset gates it
				o := *shared
				pb := g.nodes[0].m.ToProto()
				o.ByGam, o.Gamma = true, engine.F64(pb.Gamma)
				switch r.Pick(3, 3, 3, 2) {
				case 3: // within the equality tolerance of 0: must be equal to an exact 0 in BOTH directions
					o.Offset = engine.F64([]float64{0.1 + 0.2 - 0.3, -1e-13, 1e-15, 4e-13, 0}[r.Intn(5)])
				case 0:
					o.Offset = 0
				case 1:
					o.Offset = engine.F64(pb.IndexOffset + float64(r.Range(1, 50)))
				default:
					o.Offset = engine.F64(float64(r.Range(-2000, 2000)))
				}
				g.mkNode(prof.roles[r.Intn(len(prof.roles))], prof.stores[r.Intn(len(prof.stores))], &o)
				// the fleet itself is sometimes built from base and offset too, so that both sides are
			} else if shared != nil && !shared.ByGam && r.Pct(map[bool]int{false: 30, true: 50}[prof.prop == "C19"]) {
				// same kind, an accuracy only just clearly different (0.11% .. 10% apart), also at the fine end
				// of the accuracy range where the bases 1+2*alpha are closest to each other
				o := *shared
				f := []float64{1.0011, 1.0011, 1.002, 1.01, 1.1}[r.Intn(5)]
				if r.Pct(50) {
					f = 1 / f
				}
				if a := float64(o.Alpha) * f; a > 1e-6 && a < 0.99 {
					o.Alpha = engine.F64(a)
				}
				g.mkNode(prof.roles[r.Intn(len(prof.roles))], prof.stores[r.Intn(len(prof.stores))], &o)
			} else {
				g.mkNode(prof.roles[r.Intn(len(prof.roles))], prof.stores[r.Intn(len(prof.stores))], nil)
			}
		}
		g.opNames = []string{"add", "addw", "merge", "copy", "clear", "reweight", "send", "query", "burst", "chmap"}
		g.weightsTab = make([]int, len(g.opNames))
		for i, name := range g.opNames {
			g.weightsTab[i] = prof.ops[name] * []int{0, 1, 1, 3}[r.Intn(4)]
		}
		g.weightsTab[0] += 4
		if g.regime == "unit" {
			g.weightsTab[0] += g.weightsTab[1]
			g.weightsTab[1] = 0
		}
		for _, n := range g.nodes {
			n := n
			g.q.After(int64(r.Range(0, 100)), func() { g.actor(n) })
		}
		if prof.extra != nil {
			prof.extra(g)
		}
		for steps := 0; g.q.Step() && steps < 40000; steps++ {
		}
		return p
	}
}

func (g *fleetGen) doQuery(n *fgNode) {
	g.emit(engine.Event{Ev: "query", N: n.id, Q: g.quantiles(n, g.r.Range(1, 6)), I: int64(g.r.Range(0, 5))})
}

func (g *fleetGen) actor(n *fgNode) {
	if g.opsLeft <= 0 {
		return
	}
	g.opsLeft--
	r := g.r
	op := g.opNames[r.Pick(g.weightsTab...)]
	switch op {
	case "add":
		g.emit(engine.Event{Ev: "add", N: n.id, V: engine.F64(g.value(n))})
		n.n++
	case "addw":
		w := g.weight()
		if r.Pct(3) {
			w = 0
		}
		g.emit(engine.Event{Ev: "addw", N: n.id, V: engine.F64(g.value(n)), W: engine.F64(w)})
		n.n++
	case "burst":
		k := r.Range(5, 60)
		for i := 0; i < k; i++ {
			g.emit(engine.Event{Ev: "add", N: n.id, V: engine.F64(g.value(n))})
			n.n++
		}
	case "merge":
		if len(g.nodes) < 2 {
			g.emit(engine.Event{Ev: "add", N: n.id, V: engine.F64(g.value(n))})
			n.n++
			break
		}
		src := g.nodes[r.Intn(len(g.nodes))]
		if src == n {
			src = g.nodes[(r.Intn(len(g.nodes)-1)+g.indexOf(n)+1)%len(g.nodes)]
		}
		g.emit(engine.Event{Ev: "merge", N: n.id, M: src.id})
		n.n += src.n
	case "copy":
		if len(g.nodes) >= 8 {
			g.doQuery(n)
			break
		}
		c := &fgNode{id: g.nextID, spec: n.spec, m: n.m, n: n.n, last: n.last, centre: n.centre, spreadBins: n.spreadBins}
		c.spec.ID = c.id
		g.nextID++
		g.nodes = append(g.nodes, c)
		g.emit(engine.Event{Ev: "copy", N: n.id, M: c.id})
		g.q.After(int64(r.Range(1, 500)), func() { g.actor(c) })
	case "clear":
		g.emit(engine.Event{Ev: "clear", N: n.id})
		n.n = 0
		if r.Pct(50) {
			g.aim(n) // the re-used sketch sees another distribution
		}
	case "reweight":
		k := r.Range(-8, 8)
		if g.regime == "unit" || g.regime == "int" {
			k = r.Range(0, 8)
		}
		g.emit(engine.Event{Ev: "reweight", N: n.id, W: engine.F64(math.Ldexp(1, k))})
	case "send":
		g.flush(n)
	case "query":
		g.doQuery(n)
	case "chmap":
		if n.n == 0 {
			g.emit(engine.Event{Ev: "add", N: n.id, V: engine.F64(g.value(n))})
			n.n++
		} else {
			g.changeMapping(n)
		}
	}
	if op != "query" && r.Pct(g.prof.queryEvery) {
		g.doQuery(n)
	}
	g.q.After(int64(r.Range(1, 1000)), func() { g.actor(n) })
}

func (g *fleetGen) indexOf(n *fgNode) int {
	for i, m := range g.nodes {
		if m == n {
			return i
		}
	}
	return 0
}

// flush serialises a node and schedules deliveries over the simulated links.
func (g *fleetGen) flush(n *fgNode) {
	r := g.r
	if len(g.prof.forms) == 0 {
		return
	}
	form := g.prof.forms[r.Intn(len(g.prof.forms))]
	id := g.nextMsg
	g.nextMsg++
	g.emit(engine.Event{Ev: "send", N: n.id, J: int64(id), S: form, I: int64(r.Range(0, 40))})
	g.msgForms[id] = form
	g.msgOwner[id] = n
	if form == "bin" || form == "binomit" {
		g.binMsgs = append(g.binMsgs, id)
	}
	if g.prof.afterSend != nil {
		g.prof.afterSend(g, n, id, form)
	}
	if r.Pct(30) { // flush-and-reset, the usual agent behaviour
		g.emit(engine.Event{Ev: "clear", N: n.id})
		n.n = 0
	}
	if g.prof.concat && len(g.binMsgs) >= 2 && r.Pct(35) {
		k := r.Range(2, 4)
		parts := []int64{}
		for i := 0; i < k; i++ {
			parts = append(parts, int64(g.binMsgs[r.Intn(len(g.binMsgs))]))
		}
		cid := g.nextMsg
		g.nextMsg++
		g.emit(engine.Event{Ev: "concat", J: int64(cid), L: parts})
		g.msgForms[cid] = "bin"
		id = cid
	}
	deliveries := 1
	switch r.Pick(70, 20, 10) {
	case 1:
		deliveries = 2
		g.emit(engine.Event{Ev: "fault", N: n.id, J: int64(id), S: "dup"})
	case 2:
		deliveries = 0
		g.emit(engine.Event{Ev: "fault", N: n.id, J: int64(id), S: "drop"})
	}
	for d := 0; d < deliveries; d++ {
		dst := g.sameMapping(n)
		mode := g.prof.modes[r.Intn(len(g.prof.modes))]
		lat := int64(r.Range(1, 3000))
		mid := id
		g.q.After(lat, func() {
			g.emit(engine.Event{Ev: "deliver", N: dst.id, J: int64(mid), S: mode, I: int64(g.r.Intn(2))})
			dst.n += n.n
			if g.r.Pct(g.prof.queryEvery) {
				g.doQuery(dst)
			}
		})
	}
}

func nonTrivialFleet(minMut int, need ...string) func(p *engine.Plan) bool {
	return func(p *engine.Plan) bool {
		mut := 0
		seen := map[string]bool{}
		for _, e := range p.Events {
			switch e.Ev {
			case "add", "addw", "merge", "deliver", "clear", "copy", "reweight", "chmap":
				mut++
			}
			seen[e.Ev] = true
		}
		if mut < minMut {
			return false
		}
		for _, n := range need {
			if !seen[n] {
				return false
			}
		}
		return true
	}
}

// sameMapping picks a node that shares n's mapping (possibly n itself).
func (g *fleetGen) sameMapping(n *fgNode) *fgNode {
	key := mapKey(&n.spec)
	var c []*fgNode
	for _, m := range g.nodes {
		if mapKey(&m.spec) == key {
			c = append(c, m)
		}
	}
	return c[g.r.Intn(len(c))]
}

func (g *fleetGen) otherMapping(n *fgNode) *fgNode {
	key := mapKey(&n.spec)
	var c []*fgNode
	for _, m := range g.nodes {
		if mapKey(&m.spec) != key {
			c = append(c, m)
		}
	}
	if len(c) == 0 {
		return nil
	}
	return c[g.r.Intn(len(c))]
}

// foreignStream builds a well-formed stream from the documented grammar:
// blocks in any order, the three bin layouts, negative, zero and large strides,
// repeated blocks and repeated indexes, statistics blocks.
func (g *fleetGen) foreignStream(n *fgNode) []byte {
	r := g.r
	var blocks [][]byte
	pb := n.m.ToProto()
	if r.Pct(85) {
		blocks = append(blocks, refmodel.DocEncodeMapping(n.spec.Map, pb.Gamma, pb.IndexOffset))
		if r.Pct(10) {
			blocks = append(blocks, refmodel.DocEncodeMapping(n.spec.Map, pb.Gamma, pb.IndexOffset))
		}
	}
	for k := r.Pick(5, 4, 1); k > 0; k-- {
		blocks = append(blocks, refmodel.DocEncodeFeature(1, g.weightOr("int")))
	}
	if r.Pct(25) {
		blocks = append(blocks, refmodel.DocEncodeFeature(0x28, float64(r.Range(0, 50))))
		blocks = append(blocks, refmodel.DocEncodeFeature(0x21, r.Float64()*100))
		blocks = append(blocks, refmodel.DocEncodeFeature(0x22, -r.Float64()))
		blocks = append(blocks, refmodel.DocEncodeFeature(0x23, r.Float64()*50))
	}
	centre := int64(n.m.Index(n.centre))
	for k := r.Range(1, 5); k > 0; k-- {
		t := refmodel.DocTypePositive
		if r.Pct(35) {
			t = refmodel.DocTypeNegative
		}
		layout := 1 + r.Intn(3)
		var idx []int64
		var cnt []float64
		stride := int64(0)
		switch layout {
		case 1, 2:
			cur := centre + int64(r.Range(-300, 300))
			for j := r.Range(0, 12); j > 0; j-- {
				idx = append(idx, cur)
				w := 1.0
				if layout == 1 {
					w = g.weightOr("frac")
					if r.Pct(5) {
						w = 0
					}
				}
				cnt = append(cnt, w)
				cur += int64([]int{0, 1, 1, 2, -1, -7, 31, 32, 33, -40, 40}[r.Intn(11)])
			}
		case 3:
			stride = int64([]int{-33, -32, -2, -1, 0, 1, 1, 1, 2, 31, 32, 33, 64, 100}[r.Intn(14)])
			first := centre + int64(r.Range(-300, 300))
			if r.Pct(30) {
				first = first &^ 31 // page aligned
			}
			cur := first
			for j := r.Range(0, 40); j > 0; j-- {
				idx = append(idx, cur)
				w := g.weightOr("int")
				if r.Pct(30) {
					w = 0
				}
				cnt = append(cnt, w)
				cur += stride
			}
		}
		blocks = append(blocks, refmodel.DocEncodeBins(t, layout, idx, cnt, stride))
		if r.Pct(10) {
			blocks = append(blocks, blocks[len(blocks)-1]) // a repeated block
		}
	}
	// any order
	for i := len(blocks) - 1; i > 0; i-- {
		j := r.Intn(i + 1)
		blocks[i], blocks[j] = blocks[j], blocks[i]
	}
	var out []byte
	for _, b := range blocks {
		out = append(out, b...)
	}
	return out
}

func (g *fleetGen) weightOr(regime string) float64 {
	if g.regime == "unit" {
		return dyadicWeight(g.r, regime)
	}
	return g.weight()
}

// changeMapping: the converter. Target mappings are coarser, finer or equal;
// scale factors lie in [1e-3, 1e3] and include powers of the source base (the
// bin-aligned case) and 1.
func (g *fleetGen) changeMapping(n *fgNode) {
	r := g.r
	if len(g.nodes) >= 8 {
		g.doQuery(n)
		return
	}
	spec := engine.Node{ID: g.nextID, Role: n.spec.Role, Store: g.prof.stores[r.Intn(len(g.prof.stores))], Lazy: true}
	g.nextID++
	if refmodel.IsCollapsing(spec.Store) {
		spec.N = []int{16, 100, 2048}[r.Intn(3)]
	}
	a1 := float64(n.spec.Alpha)
	switch r.Pick(25, 30, 30, 15, 10) {
	case 0: // same mapping
		spec.Map, spec.Alpha, spec.ByGam, spec.Gamma, spec.Offset = n.spec.Map, n.spec.Alpha, n.spec.ByGam, n.spec.Gamma, n.spec.Offset
	case 4: // same kind and base, another index offset: the bins are only renumbered (or shifted by a fraction of a bin)
		pb := n.m.ToProto()
		spec.Map, spec.Alpha, spec.ByGam, spec.Gamma = n.spec.Map, n.spec.Alpha, true, engine.F64(pb.Gamma)
		switch r.Pick(3, 3, 2, 2) {
		case 0:
			spec.Offset = 0
		case 1:
			spec.Offset = engine.F64(pb.IndexOffset + float64(r.Range(1, 50)))
		case 2:
			spec.Offset = engine.F64(pb.IndexOffset + 0.5)
		default:
			spec.Offset = engine.F64(float64(r.Range(-2000, 2000)))
		}
	case 1: // coarser
		spec.Map = mappingKinds[r.Intn(3)]
		spec.Alpha = engine.F64(math.Min(0.9, a1*r.LogUniform(1, 20)))
	case 2: // finer
		spec.Map = mappingKinds[r.Intn(3)]
		spec.Alpha = engine.F64(math.Max(1e-5, a1/r.LogUniform(1, 20)))
	default: // same accuracy, other kind
		spec.Map = mappingKinds[r.Intn(3)]
		spec.Alpha = n.spec.Alpha
	}
	m, err := buildMapping(&spec)
	if err != nil {
		return
	}
	scale := 1.0
	gamma := n.m.ToProto().Gamma
	switch r.Pick(30, 30, 25, 15) {
	case 1:
		scale = r.LogUniform(1e-3, 1e3)
	case 2: // bin aligned: a power of the source base
		scale = math.Pow(gamma, float64(r.Range(-3, 3)))
		if r.Pct(50) {
			scale = 1 / gamma
		}
	case 3:
		scale = []float64{1000, 0.001, 60, 1.0 / 60, 1024, 0.5, 2}[r.Intn(7)]
	}
	if !(scale >= 1e-3 && scale <= 1e3) {
		scale = 1
	}
	g.p.Nodes = append(g.p.Nodes, spec)
	c := &fgNode{id: spec.ID, spec: spec, m: m, n: n.n, centre: n.centre * scale, spreadBins: n.spreadBins}
	lo, hi := m.MinIndexableValue(), m.MaxIndexableValue()
	if c.centre < lo*1e4 {
		c.centre = lo * 1e4
	}
	if c.centre > hi/1e4 {
		c.centre = hi / 1e4
	}
	g.nodes = append(g.nodes, c)
	g.emit(engine.Event{Ev: "chmap", N: n.id, M: c.id, W: engine.F64(scale)})
	g.doQuery(c)
	g.q.After(int64(r.Range(1, 500)), func() { g.actor(c) })
}
