package worlds

import (
	"math"

	"verif/sim/engine"
	"verif/sim/refmodel"
)

var allStoreKinds = []string{refmodel.Dense, refmodel.Sparse, refmodel.Paginated, refmodel.CLow, refmodel.CHigh}
var plainStoreKinds = []string{refmodel.Dense, refmodel.Sparse, refmodel.Paginated}
var binLimits = []int{1, 2, 3, 4, 8, 16, 100, 2048}

type gnode struct {
	id     int
	kind   string
	n      int
	lo, hi int
	any    bool
	last   int
}

// GenStoreWorld draws one W-store plan. The generator is itself a small
// discrete-event simulation: every store has an owner with think times, every
// message a link latency, so deliveries are re-ordered, delayed and (when the
// run's fault set says so) duplicated or dropped.
func GenStoreWorld(prop string) func(r *engine.PRNG, run int, tier string) *engine.Plan {
	return func(r *engine.PRNG, run int, tier string) *engine.Plan {
		p := &engine.Plan{Config: map[string]string{}}
		q := &engine.SimQ{}

		// --- swarm configuration
		nNodes := 1 + r.Pick(2, 4, 3, 2)
		regime := []string{"unit", "int", "frac"}[r.Pick(3, 3, 4)]
		p.Config["weights"] = regime
		p.Config["maporder"] = []string{"asc", "desc", "keyed", "shuffle"}[r.Pick(3, 2, 3, 2)]
		observe := []string{"every", "sparse", "end"}[r.Pick(3, 4, 3)]
		p.Config["observe"] = observe
		var nOps int
		switch r.Pick(400, 350, 247, 3) {
		case 0:
			nOps = r.Range(3, 12)
		case 1:
			nOps = r.Range(12, 40)
		case 2:
			nOps = r.Range(40, 120)
		default: // a long history: many compactions, array growths, pages, collapses
			nOps = r.Range(400, 1200)
			p.Config["history"] = "long"
			if observe == "every" { // a full observation after each of a thousand events is quadratic
				observe = "sparse"
				p.Config["observe"] = observe
			}
		}
		centre := 0
		switch r.Pick(30, 30, 35, 3, 2) {
		case 1:
			centre = r.Range(-1000, 1000)
		case 2:
			centre = r.Range(math.MinInt32/2, math.MaxInt32/2)
		case 3:
			centre = math.MaxInt32 - r.Range(0, 200)
		case 4:
			centre = math.MinInt32 + r.Range(0, 200)
		}
		spread := []int{2, 8, 40, 300, 3000, 20000}[r.Pick(15, 20, 25, 20, 15, 5)]
		dupFault := r.Pct(40)
		dropFault := r.Pct(30)

		nodes := []*gnode{}
		nextID := 1
		mkNode := func(kind string) *gnode {
			g := &gnode{id: nextID, kind: kind}
			nextID++
			if refmodel.IsCollapsing(kind) {
				g.n = binLimits[r.Intn(len(binLimits))]
			}
			nodes = append(nodes, g)
			p.Nodes = append(p.Nodes, engine.Node{ID: g.id, Role: "store", Store: kind, N: g.n})
			return g
		}
		switch prop {
		case "C04":
			mkNode(plainStoreKinds[r.Intn(3)])
		case "C05":
			mkNode([]string{refmodel.CLow, refmodel.CHigh}[r.Intn(2)])
		default:
			mkNode(allStoreKinds[r.Intn(5)])
		}
		for len(nodes) < nNodes {
			switch {
			case prop == "C05" && r.Pct(50):
				mkNode(nodes[0].kind) // same kind, usually another bin limit: the direct array merge path
			case prop == "C04" && r.Pct(70):
				mkNode(plainStoreKinds[r.Intn(3)])
			default:
				mkNode(allStoreKinds[r.Intn(5)])
			}
		}

		// per-run operation mix (swarm: some operations absent, some frequent)
		base := map[string]int{"add": 30, "addw": 20, "addbin": 5, "addrun": 4, "merge": 10, "copy": 3, "clear": 3, "reweight": 3, "send": 8, "read": 10}
		if regime == "unit" {
			base["addw"], base["addbin"], base["reweight"] = 2, 1, 1
		}
		switch prop {
		case "C05":
			base["merge"] = 20
			base["clear"] = 6
		case "C14":
			base["read"], base["copy"], base["send"] = 30, 8, 14
		case "C15":
			base["clear"] = 10
		case "C16":
			base["reweight"] = 12
		}
		opNames := []string{"add", "addw", "addbin", "addrun", "merge", "copy", "clear", "reweight", "send", "read"}
		weights := make([]int, len(opNames))
		for i, n := range opNames {
			weights[i] = base[n] * []int{0, 1, 1, 3}[r.Intn(4)]
		}
		weights[0] += 5 // there is always some plain adding

		emit := func(e engine.Event) {
			e.T = q.Now
			p.Events = append(p.Events, e)
		}
		pickIndex := func(g *gnode) int {
			var idx int
			switch r.Pick(50, 15, 20, 10, 5) {
			case 0:
				idx = centre + r.Range(-spread, spread)
			case 1: // page boundaries (pages hold 32 indexes)
				idx = ((centre+r.Range(-spread, spread))&^31 + []int{-1, 0, 1, 31, 32, 33}[r.Intn(6)])
			case 2: // array growth thresholds and collapsing edges
				if !g.any {
					idx = centre
					break
				}
				d := []int{1, 2, 63, 64, 65, 127, 128, 129, 140, 200}[r.Intn(10)]
				if g.n > 0 && r.Pct(60) {
					d = g.n + r.Range(-2, 2)
				}
				if r.Pct(50) {
					idx = g.hi + d
					if g.n > 0 && r.Pct(40) {
						idx = g.lo + d
					}
				} else {
					idx = g.lo - d
					if g.n > 0 && r.Pct(40) {
						idx = g.hi - d
					}
				}
			case 3:
				idx = g.last
				if !g.any {
					idx = centre
				}
			default:
				idx = centre + r.Range(-spread, spread)*r.Range(1, 8)
			}
			if idx > math.MaxInt32 {
				idx = math.MaxInt32
			}
			if idx < math.MinInt32 {
				idx = math.MinInt32
			}
			if !g.any || idx < g.lo {
				g.lo = idx
			}
			if !g.any || idx > g.hi {
				g.hi = idx
			}
			g.any, g.last = true, idx
			return idx
		}

		nextMsg := 1
		opsLeft := nOps
		var actor func(g *gnode)
		readModes := []string{"all", "total", "minmax", "foreach", "stop", "bins", "rank"}
		doRead := func(g *gnode, mode string) {
			e := engine.Event{Ev: "read", N: g.id, S: mode}
			switch mode {
			case "stop":
				e.I = int64(r.Range(0, 4))
			case "rank":
				e.I = int64(r.Range(-2, 4000))
			}
			emit(e)
		}
		actor = func(g *gnode) {
			if opsLeft <= 0 {
				return
			}
			opsLeft--
			op := opNames[r.Pick(weights...)]
			switch op {
			case "add":
				emit(engine.Event{Ev: "add", N: g.id, I: int64(pickIndex(g))})
			case "addw", "addbin":
				w := dyadicWeight(r, regime)
				if r.Pct(4) {
					w = 0
				}
				emit(engine.Event{Ev: op, N: g.id, I: int64(pickIndex(g)), W: engine.F64(w)})
			case "addrun":
				basei := pickIndex(g) &^ 31
				width := []int64{1, 3, 32, 33, 64, 700, 4000}[r.Intn(7)]
				stride := []int64{1, 5, 7, 31, 37}[r.Intn(5)]
				emit(engine.Event{Ev: "addrun", N: g.id, I: int64(basei), J: int64(r.Range(20, 100)), L: []int64{stride, width}})
				if hi := basei + int(width) - 1; hi > g.hi {
					g.hi = hi
				}
			case "merge":
				if len(nodes) < 2 {
					emit(engine.Event{Ev: "add", N: g.id, I: int64(pickIndex(g))})
					break
				}
				src := nodes[r.Intn(len(nodes))]
				if src == g {
					src = nodes[(r.Intn(len(nodes)-1)+indexOf(nodes, g)+1)%len(nodes)]
				}
				emit(engine.Event{Ev: "merge", N: g.id, M: src.id})
				if src.any {
					if !g.any || src.lo < g.lo {
						g.lo = src.lo
					}
					if !g.any || src.hi > g.hi {
						g.hi = src.hi
					}
					g.any = true
				}
			case "copy":
				if len(nodes) >= 6 {
					doRead(g, "all")
					break
				}
				c := &gnode{id: nextID, kind: g.kind, n: g.n, lo: g.lo, hi: g.hi, any: g.any, last: g.last}
				nextID++
				nodes = append(nodes, c)
				emit(engine.Event{Ev: "copy", N: g.id, M: c.id})
				q.After(int64(r.Range(1, 500)), func() { actor(c) })
			case "clear":
				emit(engine.Event{Ev: "clear", N: g.id})
				g.any = false
			case "reweight":
				k := r.Range(-8, 8)
				if regime != "frac" && k < 0 {
					k = -k
				}
				emit(engine.Event{Ev: "reweight", N: g.id, W: engine.F64(math.Ldexp(1, k))})
			case "send":
				form := []string{"bin", "pb", "pbstream"}[r.Pick(6, 2, 2)]
				id := nextMsg
				nextMsg++
				emit(engine.Event{Ev: "send", N: g.id, J: int64(id), S: form, I: int64(r.Range(0, 40))})
				deliveries := 1
				if dropFault && r.Pct(15) {
					deliveries = 0
					emit(engine.Event{Ev: "fault", N: g.id, J: int64(id), S: "drop"})
				} else if dupFault && r.Pct(25) {
					deliveries = 2
					emit(engine.Event{Ev: "fault", N: g.id, J: int64(id), S: "dup"})
				}
				for d := 0; d < deliveries; d++ {
					dst := nodes[r.Intn(len(nodes))]
					lat := int64(r.Range(1, 3000))
					q.After(lat, func() {
						emit(engine.Event{Ev: "deliver", N: dst.id, J: int64(id)})
						if observe == "every" {
							doRead(dst, "all")
						}
					})
				}
			case "read":
				doRead(g, readModes[r.Pick(30, 10, 10, 15, 10, 10, 15)])
			}
			if observe == "every" || (observe == "sparse" && r.Pct(15)) {
				if op != "read" {
					doRead(g, "all")
				}
			}
			q.After(int64(r.Range(1, 1000)), func() { actor(g) })
		}
		for _, g := range nodes {
			g := g
			q.After(int64(r.Range(0, 100)), func() { actor(g) })
		}
		for steps := 0; q.Step() && steps < 20000; steps++ {
		}
		return p
	}
}

func indexOf(nodes []*gnode, g *gnode) int {
	for i, n := range nodes {
		if n == g {
			return i
		}
	}
	return 0
}

// nonTrivialStore: a run is non-trivial when it holds at least 3 mutations and
// at least one of merge / deliver / clear / copy / reweight.
func nonTrivialStore(p *engine.Plan) bool {
	mut, inter := 0, 0
	for _, e := range p.Events {
		switch e.Ev {
		case "add", "addw", "addbin", "addrun":
			mut++
		case "merge", "deliver", "clear", "copy", "reweight":
			mut++
			inter++
		}
	}
	return mut >= 3 && inter >= 1
}
