// Package engine is the property-independent part of the simulator: the PRNG
// that decides every choice, the plan (recorded schedule) format, the
// delta-debugging minimiser, the batch driver with worker processes, replay
// and evidence writing.
package engine

import "math"

// PRNG is xoshiro256** seeded through splitmix64. It is the only source of
// choices in the simulator. Logging never draws from it.
type PRNG struct{ s [4]uint64 }

func splitmix64(x *uint64) uint64 {
	*x += 0x9E3779B97F4A7C15
	z := *x
	z = (z ^ (z >> 30)) * 0xBF58476D1CE4E5B9
	z = (z ^ (z >> 27)) * 0x94D049BB133111EB
	return z ^ (z >> 31)
}

// Mix derives the seed of run i of a batch from the batch seed, so that the
// content of a run does not depend on which worker executes it.
func Mix(seed uint64, i uint64) uint64 {
	x := seed ^ (i * 0x9E3779B97F4A7C15)
	return splitmix64(&x)
}

func NewPRNG(seed uint64) *PRNG {
	p := &PRNG{}
	x := seed
	for i := range p.s {
		p.s[i] = splitmix64(&x)
	}
	return p
}

func rotl(x uint64, k uint) uint64 { return (x << k) | (x >> (64 - k)) }

func (p *PRNG) Uint64() uint64 {
	s := &p.s
	result := rotl(s[1]*5, 7) * 9
	t := s[1] << 17
	s[2] ^= s[0]
	s[3] ^= s[1]
	s[1] ^= s[2]
	s[0] ^= s[3]
	s[2] ^= t
	s[3] = rotl(s[3], 45)
	return result
}

// Intn returns a value in [0,n). n <= 0 yields 0.
func (p *PRNG) Intn(n int) int {
	if n <= 1 {
		return 0
	}
	return int(p.Uint64() % uint64(n))
}

// Range returns a value in [lo,hi] inclusive.
func (p *PRNG) Range(lo, hi int) int {
	if hi <= lo {
		return lo
	}
	return lo + p.Intn(hi-lo+1)
}

// Float64 returns a value in [0,1).
func (p *PRNG) Float64() float64 { return float64(p.Uint64()>>11) / (1 << 53) }

// Pct is true with probability pct/100.
func (p *PRNG) Pct(pct int) bool { return p.Intn(100) < pct }

// Pick returns an index drawn with the given relative weights.
func (p *PRNG) Pick(weights ...int) int {
	total := 0
	for _, w := range weights {
		total += w
	}
	if total <= 0 {
		return 0
	}
	x := p.Intn(total)
	for i, w := range weights {
		if x < w {
			return i
		}
		x -= w
	}
	return len(weights) - 1
}

// LogUniform returns a value log-uniformly distributed in [lo,hi].
func (p *PRNG) LogUniform(lo, hi float64) float64 {
	return math.Exp(math.Log(lo) + p.Float64()*(math.Log(hi)-math.Log(lo)))
}

// Fork derives an independent generator (used for sub-decisions whose number
// of draws must not shift later choices).
func (p *PRNG) Fork() *PRNG { return NewPRNG(p.Uint64()) }

// Hash64 is a small deterministic hash used for keyed orders and signatures.
func Hash64(x uint64) uint64 {
	x ^= x >> 33
	x *= 0xff51afd7ed558ccd
	x ^= x >> 33
	x *= 0xc4ceb9fe1a85ec53
	x ^= x >> 33
	return x
}

// HashStr folds a string into a running hash (FNV-1a style).
func HashStr(h uint64, s string) uint64 {
	if h == 0 {
		h = 14695981039346656037
	}
	for i := 0; i < len(s); i++ {
		h ^= uint64(s[i])
		h *= 1099511628211
	}
	return h
}
