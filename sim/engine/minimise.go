package engine

import "time"

// Minimise shrinks a failing plan by delta debugging: (1) delete chunks of
// events of halving size, (2) simplify node kinds, (3) simplify arguments,
// (4) delete single events again. A candidate is kept only while the
// executor reports the same oracle. Budget: maxExec executions (and a
// generous wall-clock cap that only guards against a pathological executor).
func Minimise(p *Plan, v *Violation, exec func(*Plan) *Violation, maxExec int) (*Plan, *Violation, *MinInfo) {
	info := &MinInfo{EventsBefore: len(p.Events)}
	deadline := time.Now().Add(180 * time.Second)
	cur := p.Clone()
	curV := v
	same := func(c *Plan) *Violation {
		if info.Executions >= maxExec || time.Now().After(deadline) {
			return nil
		}
		info.Executions++
		v2 := exec(c)
		if v2 != nil && v2.Oracle == v.Oracle {
			return v2
		}
		return nil
	}

	// the violation names the event at which it was detected: nothing after it matters
	if curV.AtEvent >= 0 && curV.AtEvent+1 < len(cur.Events) {
		c := cur.Clone()
		c.Events = c.Events[:curV.AtEvent+1]
		if v2 := same(c); v2 != nil {
			cur, curV = c, v2
		}
	}

	ddmin := func(minChunk int) {
		for chunk := len(cur.Events) / 2; chunk >= minChunk; chunk /= 2 {
			for start := 0; start < len(cur.Events); {
				end := start + chunk
				if end > len(cur.Events) {
					end = len(cur.Events)
				}
				c := cur.Clone()
				c.Events = append(c.Events[:start:start], c.Events[end:]...)
				if v2 := same(c); v2 != nil {
					cur, curV = c, v2
				} else {
					start = end
				}
			}
			if chunk == 1 {
				break
			}
		}
	}
	ddmin(1)
	// single-event deletion to a fixpoint
	for changed := true; changed; {
		changed = false
		for i := len(cur.Events) - 1; i >= 0; i-- {
			if i >= len(cur.Events) {
				continue
			}
			c := cur.Clone()
			c.Events = append(c.Events[:i:i], c.Events[i+1:]...)
			if v2 := same(c); v2 != nil {
				cur, curV = c, v2
				changed = true
			}
		}
	}

	// node simplification
	for i := range cur.Nodes {
		try := func(mut func(n *Node)) {
			c := cur.Clone()
			mut(&c.Nodes[i])
			if c.Nodes[i] == cur.Nodes[i] {
				return
			}
			if v2 := same(c); v2 != nil {
				cur, curV = c, v2
			}
		}
		try(func(n *Node) {
			if n.Store != "" {
				n.Store = "dense"
				n.N = 0
			}
		})
		try(func(n *Node) {
			if n.Map != "" {
				n.Map = "log"
				n.ByGam = false
				n.Gamma, n.Offset = 0, 0
			}
		})
		try(func(n *Node) {
			if n.Map != "" && !n.ByGam {
				n.Alpha = 0.01
			}
		})
		try(func(n *Node) {
			if n.N > 1 {
				n.N = n.N / 2
			}
		})
	}
	// config simplification
	for _, k := range SortedKeys(cur.Config) {
		if k == "maporder" && cur.Config[k] != "asc" {
			c := cur.Clone()
			c.Config[k] = "asc"
			if v2 := same(c); v2 != nil {
				cur, curV = c, v2
			}
		}
	}

	// argument simplification
	for i := range cur.Events {
		tryEv := func(mut func(e *Event) bool) {
			c := cur.Clone()
			if !mut(&c.Events[i]) {
				return
			}
			if v2 := same(c); v2 != nil {
				cur, curV = c, v2
			}
		}
		for _, val := range []F64{1, 2, -1} {
			val := val
			tryEv(func(e *Event) bool {
				if e.V == 0 || e.V == val || e.V == 1 {
					return false
				}
				e.V = val
				return true
			})
		}
		tryEv(func(e *Event) bool {
			if e.W == 0 || e.W == 1 {
				return false
			}
			e.W = 1
			return true
		})
		tryEv(func(e *Event) bool {
			if e.I == 0 {
				return false
			}
			e.I = 0
			return true
		})
		tryEv(func(e *Event) bool {
			if e.I < 4 && e.I > -4 {
				return false
			}
			e.I = e.I / 2
			return true
		})
		tryEv(func(e *Event) bool {
			if e.J == 0 {
				return false
			}
			e.J = 0
			return true
		})
		tryEv(func(e *Event) bool {
			if len(e.Q) <= 1 {
				return false
			}
			e.Q = e.Q[:1]
			return true
		})
		for k := 0; k < 8; k++ {
			tryEv(func(e *Event) bool {
				if len(e.Q) <= 1 {
					return false
				}
				e.Q = e.Q[1:]
				return true
			})
		}
		for _, val := range []F64{0, 0.5, 1} {
			val := val
			tryEv(func(e *Event) bool {
				if len(e.Q) != 1 || e.Q[0] == val {
					return false
				}
				e.Q = []F64{val}
				return true
			})
		}
		tryEv(func(e *Event) bool {
			if len(e.L) <= 1 {
				return false
			}
			e.L = e.L[:len(e.L)/2]
			return true
		})
	}
	// final deletions (simplified arguments may have made events redundant)
	for i := len(cur.Events) - 1; i >= 0; i-- {
		if i >= len(cur.Events) {
			continue
		}
		c := cur.Clone()
		c.Events = append(c.Events[:i:i], c.Events[i+1:]...)
		if v2 := same(c); v2 != nil {
			cur, curV = c, v2
		}
	}
	// drop nodes that no event refers to
	used := map[int]bool{}
	for _, e := range cur.Events {
		used[e.N] = true
		used[e.M] = true
	}
	c := cur.Clone()
	c.Nodes = c.Nodes[:0]
	for _, n := range cur.Nodes {
		if used[n.ID] {
			c.Nodes = append(c.Nodes, n)
		}
	}
	if len(c.Nodes) < len(cur.Nodes) {
		if v2 := same(c); v2 != nil {
			cur, curV = c, v2
		}
	}
	info.EventsAfter = len(cur.Events)
	return cur, curV, info
}
