package engine

import (
	"encoding/json"
	"fmt"
	"math"
	"os"
	"sort"
	"strconv"
	"strings"
)

// F64 is a float64 that survives JSON exactly (bit pattern first, readable
// decimal after the bar): "0x3ff0000000000000|1".
type F64 float64

func (f F64) MarshalJSON() ([]byte, error) {
	return []byte(fmt.Sprintf("\"0x%016x|%v\"", math.Float64bits(float64(f)), float64(f))), nil
}

func (f *F64) UnmarshalJSON(b []byte) error {
	s := strings.Trim(string(b), "\"")
	if i := strings.IndexByte(s, '|'); i >= 0 {
		s = s[:i]
	}
	if strings.HasPrefix(s, "0x") {
		u, err := strconv.ParseUint(s[2:], 16, 64)
		if err != nil {
			return err
		}
		*f = F64(math.Float64frombits(u))
		return nil
	}
	v, err := strconv.ParseFloat(s, 64)
	if err != nil {
		return err
	}
	*f = F64(v)
	return nil
}

// Node describes one simulated party: a bare store, a sketch (plain or with
// exact summary statistics) or a dataset.
type Node struct {
	ID    int    `json:"id"`
	Role  string `json:"role"`            // store | sketch | exact | dataset
	Store string `json:"store,omitempty"` // dense | sparse | paginated | clow | chigh
	N     int    `json:"n,omitempty"`     // bin limit of collapsing kinds
	Map   string `json:"map,omitempty"`   // log | lin | cub
	Alpha F64    `json:"alpha,omitempty"` // configured relative accuracy
	// Gamma/Offset given: the mapping is built from base and offset (as decoders do).
	Gamma  F64  `json:"gamma,omitempty"`
	Offset F64  `json:"offset,omitempty"`
	ByGam  bool `json:"bygamma,omitempty"`
	// Lazy nodes are not constructed at start; an event (chmap) creates them.
	Lazy bool `json:"lazy,omitempty"`
	// Ctor: the sketch is built with the library's convenience constructor / provider for
	// this shape (NewDefaultDDSketch, LogCollapsingLowestDenseDDSketch, store.SparseStoreConstructor, ...).
	Ctor bool `json:"ctor,omitempty"`
}

// Event is one fully resolved step of a plan. Field meaning depends on Ev and
// is documented next to each world's executor.
type Event struct {
	Ev string  `json:"ev"`
	N  int     `json:"n"`           // primary node
	M  int     `json:"m,omitempty"` // secondary node or message id
	I  int64   `json:"i,omitempty"` // index / integer argument
	J  int64   `json:"j,omitempty"` // second integer argument
	V  F64     `json:"v,omitempty"` // value
	W  F64     `json:"w,omitempty"` // weight / factor
	Q  []F64   `json:"q,omitempty"` // quantiles / float list
	L  []int64 `json:"l,omitempty"` // integer list
	S  string  `json:"s,omitempty"` // mode
	B  string  `json:"b,omitempty"` // bytes (hex)
	T  int64   `json:"t,omitempty"` // simulated time in microseconds (informational)
}

type Violation struct {
	Property string `json:"property"`
	Oracle   string `json:"oracle"`
	AtEvent  int    `json:"at_event"`
	Message  string `json:"message"`
	Expected string `json:"expected,omitempty"`
	Observed string `json:"observed,omitempty"`
	// Sig is the structural signature used to match known findings.
	Sig string `json:"signature,omitempty"`
}

func (v *Violation) String() string {
	return fmt.Sprintf("%s at event %d: %s (expected %s, observed %s)", v.Oracle, v.AtEvent, v.Message, v.Expected, v.Observed)
}

type MinInfo struct {
	EventsBefore int `json:"events_before"`
	EventsAfter  int `json:"events_after"`
	Executions   int `json:"executions"`
}

type TreeInfo struct {
	RepoHead string `json:"repo_head"`
	Dirty    bool   `json:"dirty"`
}

// Plan is the recorded schedule of one run. Executing it needs no PRNG.
type Plan struct {
	Format   int               `json:"format"`
	Property string            `json:"property"`
	Seed     uint64            `json:"seed"`
	Run      int               `json:"run"`
	Tier     string            `json:"tier"`
	World    string            `json:"world"`
	Config   map[string]string `json:"config,omitempty"`
	Nodes    []Node            `json:"nodes"`
	Events   []Event           `json:"plan"`

	Violation    *Violation `json:"violation,omitempty"`
	Minimisation *MinInfo   `json:"minimisation,omitempty"`
	Tree         *TreeInfo  `json:"tree,omitempty"`
}

func (p *Plan) Clone() *Plan {
	q := *p
	q.Nodes = append([]Node(nil), p.Nodes...)
	q.Events = make([]Event, len(p.Events))
	for i, e := range p.Events {
		e.Q = append([]F64(nil), e.Q...)
		e.L = append([]int64(nil), e.L...)
		q.Events[i] = e
	}
	if p.Config != nil {
		q.Config = map[string]string{}
		for _, k := range SortedKeys(p.Config) {
			q.Config[k] = p.Config[k]
		}
	}
	q.Violation, q.Minimisation, q.Tree = nil, nil, nil
	return &q
}

func (p *Plan) Cfg(key, def string) string {
	if v, ok := p.Config[key]; ok {
		return v
	}
	return def
}

func (p *Plan) CfgInt(key string, def int) int {
	if v, ok := p.Config[key]; ok {
		if n, err := strconv.Atoi(v); err == nil {
			return n
		}
	}
	return def
}

func (p *Plan) NodeByID(id int) *Node {
	for i := range p.Nodes {
		if p.Nodes[i].ID == id {
			return &p.Nodes[i]
		}
	}
	return nil
}

func (p *Plan) Save(path string) error {
	b, err := json.MarshalIndent(p, "", " ")
	if err != nil {
		return err
	}
	return os.WriteFile(path, append(b, '\n'), 0o644)
}

func LoadPlan(path string) (*Plan, error) {
	b, err := os.ReadFile(path)
	if err != nil {
		return nil, err
	}
	p := &Plan{}
	if err := json.Unmarshal(b, p); err != nil {
		return nil, err
	}
	return p, nil
}

// Brief renders a plan compactly for evidence samples.
func (p *Plan) Brief(maxEvents int) map[string]interface{} {
	nodes := []string{}
	for _, n := range p.Nodes {
		s := fmt.Sprintf("%d:%s/%s", n.ID, n.Role, n.Store)
		if n.N > 0 {
			s += fmt.Sprintf("(%d)", n.N)
		}
		if n.Map != "" {
			s += fmt.Sprintf("/%s@%.3g", n.Map, float64(n.Alpha))
		}
		nodes = append(nodes, s)
	}
	evs := []string{}
	for i, e := range p.Events {
		if i >= maxEvents {
			evs = append(evs, fmt.Sprintf("... %d more", len(p.Events)-maxEvents))
			break
		}
		evs = append(evs, e.Brief())
	}
	return map[string]interface{}{"run": p.Run, "world": p.World, "config": p.Config, "nodes": nodes, "events": evs}
}

func (e Event) Brief() string {
	s := fmt.Sprintf("%s n%d", e.Ev, e.N)
	if e.M != 0 {
		s += fmt.Sprintf(" m%d", e.M)
	}
	if e.S != "" {
		s += " " + e.S
	}
	if e.I != 0 || e.Ev == "add" || e.Ev == "addw" {
		s += fmt.Sprintf(" i=%d", e.I)
	}
	if e.J != 0 {
		s += fmt.Sprintf(" j=%d", e.J)
	}
	if e.V != 0 {
		s += fmt.Sprintf(" v=%g", float64(e.V))
	}
	if e.W != 0 {
		s += fmt.Sprintf(" w=%g", float64(e.W))
	}
	if len(e.Q) > 0 {
		s += fmt.Sprintf(" q[%d]", len(e.Q))
	}
	if len(e.L) > 0 {
		s += fmt.Sprintf(" l[%d]", len(e.L))
	}
	return s
}

// Signature abstracts a plan to the sequence of (event kind, mode, kinds of
// the nodes involved); arguments are dropped. Two runs with the same
// signature took the same schedule shape.
func (p *Plan) Signature() uint64 {
	kind := map[int]string{}
	for _, n := range p.Nodes {
		kind[n.ID] = n.Role + "/" + n.Store
	}
	h := HashStr(0, p.World)
	for _, e := range p.Events {
		h = HashStr(h, e.Ev)
		h = HashStr(h, "|"+e.S)
		h = HashStr(h, "|"+kind[e.N])
		if e.M != 0 {
			h = HashStr(h, "|"+kind[e.M])
		}
	}
	return h
}

// Stats are the reach metrics of one or many runs.
type Stats struct {
	Runs      int                 `json:"runs"`
	Events    int                 `json:"events"`
	LibCalls  int                 `json:"lib_calls"`
	SimTimeUs int64               `json:"sim_time_us"`
	Faults    map[string]int      `json:"faults"`
	Probes    map[string]int      `json:"probes"`
	Oracles   map[string]int      `json:"oracle_evaluations"`
	Obs       uint64              `json:"-"` // running hash of every observed value (determinism digest)
	States    map[uint64]struct{} `json:"-"`
	StateOps  map[uint64]struct{} `json:"-"`
}

func NewStats() *Stats {
	return &Stats{Faults: map[string]int{}, Probes: map[string]int{}, Oracles: map[string]int{},
		States: map[uint64]struct{}{}, StateOps: map[uint64]struct{}{}}
}

func (s *Stats) Fault(k string)  { s.Faults[k]++ }
func (s *Stats) Probe(k string)  { s.Probes[k]++ }
func (s *Stats) Oracle(k string) { s.Oracles[k]++ }
func (s *Stats) ProbeIf(c bool, k string) {
	if c {
		s.Probes[k]++
	} else if _, ok := s.Probes[k]; !ok {
		s.Probes[k] = 0
	}
}
func (s *Stats) State(h uint64) { s.States[h] = struct{}{} }

// Note folds an observed value into the run's digest.
func (s *Stats) Note(x uint64)    { s.Obs = Hash64(s.Obs ^ x) }
func (s *Stats) StateOp(h uint64) { s.StateOps[h] = struct{}{} }

func (s *Stats) Merge(o *Stats) {
	s.Runs += o.Runs
	s.Events += o.Events
	s.LibCalls += o.LibCalls
	s.SimTimeUs += o.SimTimeUs
	for k, v := range o.Faults {
		s.Faults[k] += v
	}
	for k, v := range o.Probes {
		s.Probes[k] += v
	}
	for k, v := range o.Oracles {
		s.Oracles[k] += v
	}
	for k := range o.States {
		s.States[k] = struct{}{}
	}
	for k := range o.StateOps {
		s.StateOps[k] = struct{}{}
	}
}

func SortedKeys[V any](m map[string]V) []string {
	keys := make([]string, 0, len(m))
	for k := range m {
		keys = append(keys, k)
	}
	sort.Strings(keys)
	return keys
}

// eventJSON is the wire form of Event: a float field is omitted only when its
// bit pattern is zero, so that -0 survives a replay file.
type eventJSON struct {
	Ev string  `json:"ev"`
	N  int     `json:"n"`
	M  int     `json:"m,omitempty"`
	I  int64   `json:"i,omitempty"`
	J  int64   `json:"j,omitempty"`
	V  *F64    `json:"v,omitempty"`
	W  *F64    `json:"w,omitempty"`
	Q  []F64   `json:"q,omitempty"`
	L  []int64 `json:"l,omitempty"`
	S  string  `json:"s,omitempty"`
	B  string  `json:"b,omitempty"`
	T  int64   `json:"t,omitempty"`
}

func (e Event) MarshalJSON() ([]byte, error) {
	j := eventJSON{Ev: e.Ev, N: e.N, M: e.M, I: e.I, J: e.J, Q: e.Q, L: e.L, S: e.S, B: e.B, T: e.T}
	if math.Float64bits(float64(e.V)) != 0 {
		v := e.V
		j.V = &v
	}
	if math.Float64bits(float64(e.W)) != 0 {
		w := e.W
		j.W = &w
	}
	return json.Marshal(j)
}

func (e *Event) UnmarshalJSON(b []byte) error {
	var j eventJSON
	if err := json.Unmarshal(b, &j); err != nil {
		return err
	}
	*e = Event{Ev: j.Ev, N: j.N, M: j.M, I: j.I, J: j.J, Q: j.Q, L: j.L, S: j.S, B: j.B, T: j.T}
	if j.V != nil {
		e.V = *j.V
	}
	if j.W != nil {
		e.W = *j.W
	}
	return nil
}
