package engine

import (
	"bufio"
	"bytes"
	"encoding/json"
	"fmt"
	"os"
	"os/exec"
	"path/filepath"
	"runtime"
	"sort"
	"strconv"
	"strings"
	"sync"
	"sync/atomic"
	"syscall"
	"time"
)

// Prop is one property's check: a workload generator producing plans from the
// PRNG, an executor evaluating the property's oracles against the real code,
// and the bookkeeping needed for evidence.
type Prop struct {
	ID           string
	Level        string // exploration | fault_enumeration
	World        string
	QuickRuns    int
	ThoroughRuns int
	Generate     func(r *PRNG, run int, tier string) *Plan
	Execute      func(p *Plan, st *Stats) *Violation
	NonTrivial   func(p *Plan) bool
	Rule         string
	Real         []string
	Stub         []string
	Assumptions  []string
	// Extra lets a property add keys to the coverage object (e.g. per-case
	// exhaustive fault counts).
	Extra func(st *Stats) map[string]interface{}
}

var Registry = map[string]*Prop{}

func Register(p *Prop) { Registry[p.ID] = p }

// HarnessPanic marks a panic that did not come from a wrapped library call.
type HarnessPanic struct{ Val interface{} }

// SafeExecute runs the executor; a panic escaping it is a harness or model
// bug (library calls are wrapped individually by the worlds) and is reported
// as such, never as a violation.
func SafeExecute(prop *Prop, p *Plan, st *Stats) (v *Violation, harnessErr error) {
	defer func() {
		if r := recover(); r != nil {
			buf := make([]byte, 4096)
			n := runtime.Stack(buf, false)
			harnessErr = fmt.Errorf("harness panic: %v\n%s", r, buf[:n])
		}
	}()
	return prop.Execute(p, st), nil
}

type WorkerResult struct {
	Stats      *Stats                   `json:"stats"`
	States     []uint64                 `json:"states"`
	StateOps   []uint64                 `json:"state_ops"`
	Sigs       []uint64                 `json:"sigs"`
	Samples    []map[string]interface{} `json:"samples"`
	Violations []*Plan                  `json:"violations"`
	Digest     uint64                   `json:"digest"`
	HarnessErr string                   `json:"harness_err,omitempty"`
}

func runsFor(prop *Prop, tier string) int {
	n := prop.QuickRuns
	if tier == "thorough" {
		n = prop.ThoroughRuns
	}
	if s := os.Getenv("VERIF_RUNS"); s != "" {
		if k, err := strconv.Atoi(s); err == nil && k > 0 {
			n = k
		}
	}
	return n
}

// RunShard executes runs shard, shard+of, ... of the batch.
//
// skip lists runs that killed an earlier worker process (they are triaged by
// the driver in isolation); only >= 0 executes that single run.
func RunShard(prop *Prop, tier string, seed uint64, shard, of int, skip map[int]bool, only int) *WorkerResult {
	res := &WorkerResult{Stats: NewStats()}
	total := runsFor(prop, tier)
	seenOracle := map[string]int{}
	sigSeen := map[uint64]struct{}{}
	var lastSys uint64
	for run := shard; run < total; run += of {
		if only >= 0 {
			if run != shard {
				break
			}
			run = only
		}
		if skip[run] {
			continue
		}
		// marker for crash isolation: a fatal runtime error (out of memory, stack
		// overflow) inside a library call cannot be recovered in-process
		fmt.Fprintf(os.Stderr, "@run %d\n", run)
		r := NewPRNG(Mix(seed, uint64(run)))
		plan := prop.Generate(r, run, tier)
		plan.Format, plan.Property, plan.Seed, plan.Run, plan.Tier = 1, prop.ID, seed, run, tier
		if plan.World == "" {
			plan.World = prop.World
		}
		st := NewStats()
		t0 := time.Now()
		stopWatch := runWatchdog(prop.ID, run)
		v, herr := SafeExecute(prop, plan, st)
		stopWatch()
		if d := time.Since(t0); d > 2*time.Second {
			fmt.Fprintf(os.Stderr, "slow run: %s run %d took %v (%d events)\n", prop.ID, run, d, len(plan.Events))
		}
		if os.Getenv("VERIF_TRACE_MEM") != "" {
			var ms runtime.MemStats
			runtime.ReadMemStats(&ms)
			if ms.Sys > lastSys+200<<20 {
				fmt.Fprintf(os.Stderr, "big run: %s run %d grew the process to %d MB (heap in use %d MB, goroutines %d)\n", prop.ID, run, ms.Sys>>20, ms.HeapInuse>>20, runtime.NumGoroutine())
				lastSys = ms.Sys
			}
		}
		if herr != nil {
			res.HarnessErr = fmt.Sprintf("run %d: %v", run, herr)
			b, _ := json.Marshal(plan)
			res.HarnessErr += "\nplan: " + string(b)
			break
		}
		st.Runs = 1
		st.Events = len(plan.Events)
		res.Stats.Merge(st)
		vh := uint64(0)
		if v != nil {
			vh = HashStr(0, v.Oracle+v.Sig)
		}
		// commutative, so that the batch digest does not depend on the sharding
		res.Digest += Hash64(Hash64(uint64(run)+1) ^ st.digest() ^ vh)
		if prop.NonTrivial == nil || prop.NonTrivial(plan) {
			s := plan.Signature()
			if _, ok := sigSeen[s]; !ok {
				sigSeen[s] = struct{}{}
				res.Sigs = append(res.Sigs, s)
			}
		}
		if len(res.Samples) < 2 && len(plan.Events) > 2 {
			res.Samples = append(res.Samples, plan.Brief(14))
		}
		if v != nil {
			if seenOracle[v.Oracle+"|"+v.Sig] < 2 && len(res.Violations) < 12 {
				seenOracle[v.Oracle+"|"+v.Sig]++
				plan.Violation = v
				res.Violations = append(res.Violations, plan)
			}
		}
	}
	for k := range res.Stats.States {
		res.States = append(res.States, k)
	}
	for k := range res.Stats.StateOps {
		res.StateOps = append(res.StateOps, k)
	}
	sort.Slice(res.States, func(i, j int) bool { return res.States[i] < res.States[j] })
	sort.Slice(res.StateOps, func(i, j int) bool { return res.StateOps[i] < res.StateOps[j] })
	return res
}

// digest folds the order-independent parts of the reach metrics of one run
// into one number; together with the verdict it is what the determinism
// self-test compares across processes.
func (s *Stats) digest() uint64 {
	h := uint64(s.LibCalls)*31 + uint64(s.SimTimeUs)
	for _, k := range SortedKeys(s.Probes) {
		h = HashStr(h, k) + uint64(s.Probes[k])
	}
	for _, k := range SortedKeys(s.Faults) {
		h = HashStr(h, k) + uint64(s.Faults[k])
	}
	for _, k := range SortedKeys(s.Oracles) {
		h = HashStr(h, k) + uint64(s.Oracles[k])
	}
	var x uint64
	for k := range s.States {
		x ^= Hash64(k)
	}
	return Hash64(h ^ x ^ s.Obs)
}

type knownFinding struct {
	Prop, Sig, Text string
	// Example: a committed history (path relative to the verification directory) that exhibits the
	// finding; it is re-executed at every check, so the KNOWN-FINDING line does not depend on the
	// batch happening to reach the finding again
	Example string
}

func loadKnown(verifDir string) []knownFinding {
	var out []knownFinding
	f, err := os.Open(filepath.Join(verifDir, "known_findings.txt"))
	if err != nil {
		return nil
	}
	defer f.Close()
	sc := bufio.NewScanner(f)
	for sc.Scan() {
		line := strings.TrimSpace(sc.Text())
		if !strings.HasPrefix(line, "known:") {
			continue
		}
		fields := strings.Fields(strings.TrimPrefix(line, "known:"))
		k := knownFinding{}
		rest := []string{}
		for _, f := range fields {
			switch {
			case strings.HasPrefix(f, "property=") && k.Prop == "":
				k.Prop = strings.TrimPrefix(f, "property=")
			case strings.HasPrefix(f, "sig=") && k.Sig == "":
				k.Sig = strings.TrimPrefix(f, "sig=")
			case strings.HasPrefix(f, "example=") && k.Example == "":
				k.Example = strings.TrimPrefix(f, "example=")
			default:
				rest = append(rest, f)
			}
		}
		k.Text = strings.Join(rest, " ")
		if k.Prop != "" && k.Sig != "" {
			out = append(out, k)
		}
	}
	return out
}

func repoTree() *TreeInfo {
	t := &TreeInfo{}
	repo := os.Getenv("VERIF_REPO")
	if repo == "" {
		repo = "/repo"
	}
	if out, err := exec.Command("git", "-C", repo, "rev-parse", "HEAD").Output(); err == nil {
		t.RepoHead = strings.TrimSpace(string(out))
	}
	if out, err := exec.Command("git", "-C", repo, "status", "--porcelain").Output(); err == nil {
		t.Dirty = len(bytes.TrimSpace(out)) > 0
	}
	return t
}

// RunCheck is the driver: it spawns one worker process per core, merges their
// results, minimises and replay-confirms violations, writes the evidence file
// and returns the exit code (0 held, 1 violation, 2 trouble).
func RunCheck(prop *Prop, tier string, seed uint64, workers int, verifDir string, extraInfo map[string]interface{}) int {
	start := time.Now()
	self, _ := os.Executable()
	total := runsFor(prop, tier)
	if workers > total {
		workers = total
	}
	if workers < 1 {
		workers = 1
	}
	type wout struct {
		res *WorkerResult
		err error
		raw string
	}
	outs := make([]wout, workers)
	done := make(chan int, workers)
	watchdog := 90 * time.Minute
	if tier == "quick" {
		watchdog = 20 * time.Minute
	}
	var crashMu sync.Mutex
	var crashed []*Plan
	var isolated []*WorkerResult
	var abandoned atomic.Int32
	for i := 0; i < workers; i++ {
		go func(i int) {
			defer func() { done <- i }()
			skip := []string{}
			for attempt := 0; ; attempt++ {
				args := []string{"-worker", "-prop", prop.ID, "-tier", tier, "-seed", strconv.FormatUint(seed, 10), "-shard", fmt.Sprintf("%d/%d", i, workers)}
				if len(skip) > 0 {
					args = append(args, "-skip", strings.Join(skip, ","))
				}
				stdout, stderr, err := runChild(self, args, watchdog)
				if err == nil {
					res := &WorkerResult{}
					if err := json.Unmarshal(stdout, res); err != nil {
						outs[i].err = fmt.Errorf("worker %d: bad output: %v: %s", i, err, tail(string(stdout), 500))
					}
					outs[i].res = res
					return
				}
				// the worker died: find the run it was executing and triage it in isolation
				last := -1
				if k := strings.LastIndex(stderr, "@run "); k >= 0 {
					fmt.Sscanf(stderr[k:], "@run %d", &last)
				}
				if last >= 0 && attempt >= 4 {
					// this shard keeps dying in different runs; the crashes already isolated are reported,
					// the rest of the shard is abandoned (the batch is then incomplete, which the summary says)
					fmt.Fprintf(os.Stderr, "note: worker %d died %d times (last in run %d); the rest of its shard is abandoned\n", i, attempt+1, last)
					abandoned.Add(1)
					outs[i].res = &WorkerResult{Stats: NewStats()}
					return
				}
				if last < 0 {
					outs[i].err = fmt.Errorf("worker %d: %v: %s", i, err, tail(stripMarkers(stderr), 2000))
					return
				}
				stdout2, stderr2, err2 := runChild(self, []string{"-worker", "-prop", prop.ID, "-tier", tier, "-seed", strconv.FormatUint(seed, 10), "-shard", "0/1", "-only", strconv.Itoa(last)}, watchdog)
				if err2 == nil {
					// alone, the run completes (typically a multi-gigabyte allocation that only fails in a
					// long-lived worker): take its verdict from the isolated execution and go on
					one := &WorkerResult{}
					if json.Unmarshal(stdout2, one) == nil && one.Stats != nil {
						crashMu.Lock()
						isolated = append(isolated, one)
						crashMu.Unlock()
						skip = append(skip, strconv.Itoa(last))
						continue
					}
					outs[i].err = fmt.Errorf("worker %d died in run %d; the run completes in isolation but its result is unreadable: %v: %s", i, last, err, tail(stripMarkers(stderr), 1500))
					return
				}
				plan := prop.Generate(NewPRNG(Mix(seed, uint64(last))), last, tier)
				plan.Format, plan.Property, plan.Seed, plan.Run, plan.Tier = 1, prop.ID, seed, last, tier
				if plan.World == "" {
					plan.World = prop.World
				}
				plan.Violation = &Violation{Property: prop.ID, Oracle: prop.ID + ".fatal", AtEvent: -1,
					Message:  "the process executing this plan died with an unrecoverable runtime error inside the library: " + fatalLine(stderr2),
					Expected: "no crash", Observed: "fatal error", Sig: prop.ID + "/fatal/" + fatalKind(stderr2)}
				crashMu.Lock()
				crashed = append(crashed, plan)
				crashMu.Unlock()
				skip = append(skip, strconv.Itoa(last))
			}
		}(i)
	}
	for i := 0; i < workers; i++ {
		<-done
	}
	agg := NewStats()
	sigs := map[uint64]struct{}{}
	var samples []map[string]interface{}
	var failing []*Plan
	var digest uint64
	for i := range outs {
		if outs[i].err != nil {
			fmt.Fprintf(os.Stderr, "ERROR: %v\n", outs[i].err)
			return 2
		}
		r := outs[i].res
		if r.HarnessErr != "" {
			fmt.Fprintf(os.Stderr, "ERROR: harness failure (not a violation): %s\n", r.HarnessErr)
			return 2
		}
		agg.Merge(r.Stats)
		for _, s := range r.States {
			agg.States[s] = struct{}{}
		}
		for _, s := range r.StateOps {
			agg.StateOps[s] = struct{}{}
		}
		for _, s := range r.Sigs {
			sigs[s] = struct{}{}
		}
		if len(samples) < 3 {
			samples = append(samples, r.Samples...)
		}
		failing = append(failing, r.Violations...)
		digest += r.Digest
	}
	for _, r := range isolated {
		agg.Merge(r.Stats)
		for _, s := range r.Sigs {
			sigs[s] = struct{}{}
		}
		failing = append(failing, r.Violations...)
		digest += r.Digest
	}
	for _, cp := range crashed {
		agg.Runs++
		agg.Events += len(cp.Events)
		if len(samples) < 3 {
			samples = append(samples, cp.Brief(14))
		}
	}
	if samples == nil {
		samples = []map[string]interface{}{}
	}
	failing = append(failing, crashed...)
	sort.Slice(failing, func(i, j int) bool { return failing[i].Run < failing[j].Run })

	// triage: minimise, match against known findings, replay-confirm
	known := loadKnown(verifDir)
	tree := repoTree()
	violations := 0
	knownSeen := map[string]int{}
	reported := map[string]bool{}
	var minInfos []map[string]interface{}
	replayMismatch := false
	triaged, skippedTriage := 0, 0
	knownPrinted := map[string]bool{}
	for _, k := range known {
		if k.Prop != prop.ID || k.Example == "" {
			continue
		}
		ex, err := LoadPlan(filepath.Join(verifDir, k.Example))
		if err != nil {
			fmt.Fprintf(os.Stderr, "note: the example history of known finding %s cannot be read: %v\n", k.Sig, err)
			continue
		}
		if vv, herr := SafeExecute(prop, ex, NewStats()); herr == nil && vv != nil && vv.Sig == k.Sig {
			knownSeen[k.Sig]++
			knownPrinted[k.Sig] = true
			fmt.Printf("KNOWN-FINDING: property=%s %s\n", prop.ID, k.Text)
		} else {
			fmt.Fprintf(os.Stderr, "note: the example history of known finding %s no longer fails that way on this tree\n", k.Sig)
		}
	}
	for _, fp := range failing {
		v := fp.Violation
		key := v.Oracle + "|" + v.Sig
		if reported[key] {
			continue
		}
		if triaged >= 6 {
			skippedTriage++
			if skippedTriage <= 3 {
				fmt.Printf("note: further failing runs (run %d, %s) are not minimised in this invocation\n", fp.Run, v.Oracle)
			}
			continue
		}
		triaged++
		execOnce := func(c *Plan) *Violation {
			vv, herr := SafeExecute(prop, c, NewStats())
			if herr != nil {
				return nil
			}
			return vv
		}
		var minPlan *Plan
		var minV *Violation
		var info *MinInfo
		if strings.HasSuffix(v.Oracle, ".fatal") {
			// executing this plan kills the process: every candidate runs in a child
			minPlan, minV, info = Minimise(fp, v, func(c *Plan) *Violation { return execInChild(self, c) }, 120)
		} else {
			// minimise in a child process: a shrunk candidate may drive the (defective) library into a
			// fatal runtime error, which must not take the driver down
			minPlan, minV, info = minimiseInChild(self, fp)
			if minPlan == nil {
				fmt.Fprintf(os.Stderr, "note: the in-process minimiser died on a candidate of run %d; minimising with isolated executions\n", fp.Run)
				same := func(c *Plan) *Violation {
					vv := execInChild(self, c)
					if vv != nil && vv.Oracle == prop.ID+".other" {
						vv.Oracle = v.Oracle // a normal violation; the confirmation replay checks the oracle
						vv.Sig, vv.Message, vv.Expected, vv.Observed, vv.AtEvent = v.Sig, v.Message, v.Expected, v.Observed, v.AtEvent
					}
					return vv
				}
				minPlan, minV, info = Minimise(fp, v, same, 100)
			}
		}
		_ = execOnce
		key = minV.Oracle + "|" + minV.Sig
		if reported[key] {
			continue
		}
		reported[key] = true
		minPlan.Violation, minPlan.Minimisation, minPlan.Tree = minV, info, tree
		minInfos = append(minInfos, map[string]interface{}{"oracle": minV.Oracle, "before": info.EventsBefore, "after": info.EventsAfter, "executions": info.Executions})
		isKnown := false
		for _, k := range known {
			if k.Prop == prop.ID && k.Sig == minV.Sig {
				isKnown = true
				knownSeen[k.Sig]++
				if !knownPrinted[k.Sig] {
					knownPrinted[k.Sig] = true
					fmt.Printf("KNOWN-FINDING: property=%s %s\n", prop.ID, k.Text)
				}
			}
		}
		if isKnown {
			continue
		}
		os.MkdirAll(filepath.Join(verifDir, "replays"), 0o755)
		path := filepath.Join(verifDir, "replays", fmt.Sprintf("%s-%d-%d.json", prop.ID, seed, fp.Run))
		if err := minPlan.Save(path); err != nil {
			fmt.Fprintf(os.Stderr, "ERROR: cannot write replay: %v\n", err)
			return 2
		}
		// confirm in a fresh process
		cmd := exec.Command(self, "-replay", path, "-quiet")
		out, err := cmd.CombinedOutput()
		code := 0
		if ee, ok := err.(*exec.ExitError); ok {
			code = ee.ExitCode()
		} else if err != nil {
			code = 2
		}
		if code != 1 || !strings.Contains(string(out), "oracle="+minV.Oracle) {
			fmt.Fprintf(os.Stderr, "ERROR: violation of %s did not reproduce in a fresh process (exit %d): harness nondeterminism, not reported\n%s\n", minV.Oracle, code, tail(string(out), 1500))
			replayMismatch = true
			continue
		}
		violations++
		fmt.Printf("VIOLATION property=%s replay=%s\n", prop.ID, path)
		fmt.Printf("  oracle=%s sig=%s\n  %s\n  expected: %s\n  observed: %s\n", minV.Oracle, minV.Sig, minV.Message, clip(minV.Expected, 600), clip(minV.Observed, 600))
	}

	// evidence
	wall := time.Since(start).Seconds()
	neverHit := []string{}
	for _, k := range SortedKeys(agg.Probes) {
		if agg.Probes[k] == 0 {
			neverHit = append(neverHit, k)
		}
	}
	cov := map[string]interface{}{
		"evaluations":              agg.Runs,
		"distinct_nontrivial":      len(sigs),
		"rule":                     prop.Rule,
		"samples":                  samples,
		"events":                   agg.Events,
		"library_calls":            agg.LibCalls,
		"runs_per_hour":            int(float64(agg.Runs) / wall * 3600),
		"seeds":                    fmt.Sprintf("batch seed %d; run i uses splitmix64(seed xor i*0x9E3779B97F4A7C15), i in [0,%d)", seed, total),
		"sim_time_covered_s":       float64(agg.SimTimeUs) / 1e6,
		"faults_injected":          agg.Faults,
		"probes":                   agg.Probes,
		"probes_never_hit":         neverHit,
		"oracle_evaluations":       agg.Oracles,
		"distinct_abstract_states": len(agg.States),
		"distinct_state_op_pairs":  len(agg.StateOps),
		"components":               map[string]interface{}{"real": prop.Real, "stub": prop.Stub},
		"known_findings_seen":      knownSeen,
		"minimisation":             minInfos,
		"batch_digest":             fmt.Sprintf("%016x", digest),
		"workers":                  workers,
	}
	if prop.Level == "fault_enumeration" {
		cov["exhaustive_per_case"] = true
	}
	if prop.Extra != nil {
		for k, v := range prop.Extra(agg) {
			cov[k] = v
		}
	}
	for k, v := range extraInfo {
		cov[k] = v
	}
	ev := map[string]interface{}{
		"property_id": prop.ID,
		"tier":        tier,
		"seed":        seed,
		"level":       prop.Level,
		"coverage":    cov,
		"assumptions": prop.Assumptions,
		"wall_s":      wall,
		"violations":  violations,
	}
	os.MkdirAll(filepath.Join(verifDir, "evidence"), 0o755)
	b, _ := json.MarshalIndent(ev, "", " ")
	if err := os.WriteFile(filepath.Join(verifDir, "evidence", prop.ID+".json"), append(b, '\n'), 0o644); err != nil {
		fmt.Fprintf(os.Stderr, "ERROR: cannot write evidence: %v\n", err)
		return 2
	}
	fmt.Printf("%s %s seed=%d runs=%d events=%d distinct_nontrivial=%d states=%d violations=%d known=%d wall=%.1fs digest=%016x\n",
		prop.ID, tier, seed, agg.Runs, agg.Events, len(sigs), len(agg.States), violations, len(knownSeen), wall, digest)
	if violations > 0 {
		return 1
	}
	if replayMismatch {
		return 2
	}
	if abandoned.Load() > 0 {
		fmt.Fprintf(os.Stderr, "ERROR: %d shard(s) were abandoned after repeated worker deaths and no violation could be confirmed\n", abandoned.Load())
		return 2
	}
	return 0
}

// Replay executes a replay file and prints the event trace and the verdict.
// Exit 1 if the recorded oracle (or any oracle of the property, when none is
// recorded) fails, 0 if nothing fails, 2 otherwise.
func Replay(path string, quiet bool) int {
	// the plan is executed in a child process so that a fatal runtime error
	// inside the library is reported as a verdict instead of killing the replay
	self, _ := os.Executable()
	args := []string{"-replay-inproc", path}
	if quiet {
		args = append(args, "-quiet")
	}
	stdout, stderr, err := runChild(self, args, 30*time.Minute)
	os.Stdout.Write(stdout)
	code := 0
	if ee, ok := err.(*exec.ExitError); ok {
		code = ee.ExitCode()
	} else if err != nil {
		code = 2
	}
	if code == 0 || code == 1 || (code == 2 && !isFatal(stderr)) {
		os.Stderr.WriteString(stripMarkers(stderr))
		return code
	}
	p, perr := LoadPlan(path)
	if perr != nil {
		return 2
	}
	fmt.Printf("replay: VIOLATION property=%s oracle=%s.fatal sig=%s/fatal/%s\n  the process executing the plan died: %s\n", p.Property, p.Property, p.Property, fatalKind(stderr), fatalLine(stderr))
	if p.Violation != nil && p.Violation.Oracle != p.Property+".fatal" {
		fmt.Printf("replay: a different oracle failed than the recorded one (%s)\n", p.Violation.Oracle)
		return 2
	}
	return 1
}

// ReplayInProc executes a replay file in this process.
func ReplayInProc(path string, quiet bool) int {
	p, err := LoadPlan(path)
	if err != nil {
		fmt.Fprintf(os.Stderr, "ERROR: %v\n", err)
		return 2
	}
	prop := Registry[p.Property]
	if prop == nil {
		fmt.Fprintf(os.Stderr, "ERROR: unknown property %q\n", p.Property)
		return 2
	}
	if !quiet {
		fmt.Printf("replay %s property=%s world=%s seed=%d run=%d config=%v\n", path, p.Property, p.World, p.Seed, p.Run, p.Config)
		for _, n := range p.Nodes {
			b, _ := json.Marshal(n)
			fmt.Printf("  node %s\n", b)
		}
		for i, e := range p.Events {
			b, _ := json.Marshal(e)
			fmt.Printf("  [%d] %s\n", i, b)
		}
	}
	recorded := ""
	if p.Violation != nil {
		recorded = p.Violation.Oracle
	}
	c := p.Clone()
	stopWatch := runWatchdog(p.Property, p.Run)
	v, herr := SafeExecute(prop, c, NewStats())
	stopWatch()
	if herr != nil {
		fmt.Fprintf(os.Stderr, "ERROR: %v\n", herr)
		return 2
	}
	if v == nil {
		fmt.Printf("replay: no violation\n")
		return 0
	}
	fmt.Printf("replay: VIOLATION property=%s oracle=%s sig=%s at_event=%d\n  %s\n  expected: %s\n  observed: %s\n", p.Property, v.Oracle, v.Sig, v.AtEvent, v.Message, v.Expected, v.Observed)
	if recorded != "" && v.Oracle != recorded {
		fmt.Printf("replay: a different oracle failed than the recorded one (%s)\n", recorded)
		return 2
	}
	return 1
}

func tail(s string, n int) string {
	if len(s) > n {
		return "..." + s[len(s)-n:]
	}
	return s
}

func clip(s string, n int) string {
	if len(s) > n {
		return s[:n] + "..."
	}
	return s
}

func runChild(self string, args []string, timeout time.Duration) (stdout []byte, stderr string, err error) {
	cmd := exec.Command(self, args...)
	cmd.Env = os.Environ()
	var so, se bytes.Buffer
	cmd.Stdout, cmd.Stderr = &so, &se
	if err = cmd.Start(); err != nil {
		return nil, "", err
	}
	timer := time.AfterFunc(timeout, func() { cmd.Process.Kill() })
	err = cmd.Wait()
	timer.Stop()
	return so.Bytes(), se.String(), err
}

func isFatal(stderr string) bool {
	return strings.Contains(stderr, "fatal error:") || strings.Contains(stderr, "runtime: out of memory") || strings.Contains(stderr, "signal: killed")
}

func fatalLine(stderr string) string {
	for _, l := range strings.Split(stderr, "\n") {
		if strings.HasPrefix(l, "fatal error:") || strings.HasPrefix(l, "runtime: out of memory") || strings.HasPrefix(l, "runtime: goroutine stack exceeds") {
			return strings.TrimSpace(l)
		}
	}
	return "killed (no runtime message)"
}

func fatalKind(stderr string) string {
	switch {
	case strings.Contains(stderr, "out of memory"):
		return "out-of-memory"
	case strings.Contains(stderr, "stack exceeds"), strings.Contains(stderr, "stack overflow"):
		return "stack-overflow"
	case strings.Contains(stderr, "per-run time limit"):
		return "hang"
	case strings.Contains(stderr, "all goroutines are asleep"):
		return "deadlock"
	}
	return "killed"
}

func stripMarkers(stderr string) string {
	var out []string
	for _, l := range strings.Split(stderr, "\n") {
		if !strings.HasPrefix(l, "@run ") {
			out = append(out, l)
		}
	}
	return strings.Join(out, "\n")
}

// execInChild executes one plan in a child process and maps the outcome to a
// verdict: a normal violation, none, or a fatal crash.
func execInChild(self string, p *Plan) *Violation {
	f, err := os.CreateTemp("", "verif-plan-*.json")
	if err != nil {
		return nil
	}
	path := f.Name()
	f.Close()
	defer os.Remove(path)
	c := p.Clone()
	if err := c.Save(path); err != nil {
		return nil
	}
	_, stderr, err := runChild(self, []string{"-replay-inproc", path, "-quiet"}, 5*time.Minute)
	if err == nil {
		return nil
	}
	if ee, ok := err.(*exec.ExitError); ok && ee.ExitCode() == 1 {
		return &Violation{Property: p.Property, Oracle: p.Property + ".other", AtEvent: -1}
	}
	if isFatal(stderr) {
		return &Violation{Property: p.Property, Oracle: p.Property + ".fatal", AtEvent: -1,
			Message:  "the process executing this plan died with an unrecoverable runtime error inside the library: " + fatalLine(stderr),
			Expected: "no crash", Observed: "fatal error", Sig: p.Property + "/fatal/" + fatalKind(stderr)}
	}
	return nil
}

// minimiseInChild runs the in-process minimiser in a child process and
// returns nil if that process died.
func minimiseInChild(self string, fp *Plan) (*Plan, *Violation, *MinInfo) {
	in, err := os.CreateTemp("", "verif-min-in-*.json")
	if err != nil {
		return nil, nil, nil
	}
	in.Close()
	out := in.Name() + ".out"
	defer os.Remove(in.Name())
	defer os.Remove(out)
	b, _ := json.Marshal(fp)
	if err := os.WriteFile(in.Name(), b, 0o644); err != nil {
		return nil, nil, nil
	}
	if _, _, err := runChild(self, []string{"-minimise", in.Name(), "-minimise-out", out}, 10*time.Minute); err != nil {
		return nil, nil, nil
	}
	p, err := LoadPlan(out)
	if err != nil || p.Violation == nil || p.Minimisation == nil {
		return nil, nil, nil
	}
	v, info := p.Violation, p.Minimisation
	return p, v, info
}

// MinimiseFile is the child side of minimiseInChild.
func MinimiseFile(inPath, outPath string) int {
	b, err := os.ReadFile(inPath)
	if err != nil {
		return 2
	}
	fp := &Plan{}
	if err := json.Unmarshal(b, fp); err != nil || fp.Violation == nil {
		return 2
	}
	prop := Registry[fp.Property]
	if prop == nil {
		return 2
	}
	execOnce := func(c *Plan) *Violation {
		vv, herr := SafeExecute(prop, c, NewStats())
		if herr != nil {
			return nil
		}
		return vv
	}
	minPlan, minV, info := Minimise(fp, fp.Violation, execOnce, 3000)
	minPlan.Violation, minPlan.Minimisation = minV, info
	if err := minPlan.Save(outPath); err != nil {
		return 2
	}
	return 0
}

// runWatchdog guards one run: a library call that never returns (an endless loop in a decoder,
// say) cannot be interrupted in-process, so the process ends itself with a message the driver's
// crash isolation understands; the run is then re-executed alone and, if it hangs again, reported
// as <prop>.fatal (kind "hang"). The limit is generous - ordinary runs take milliseconds - and is
// measured in CPU time of this process, so that a machine loaded by other work cannot turn a
// long but finite run into a "hang"; a wall-clock backstop twelve times as long covers a call
// that blocks without computing.
func runWatchdog(prop string, run int) (stop func()) {
	limit := 300 * time.Second
	if s := os.Getenv("VERIF_RUN_LIMIT_S"); s != "" {
		if k, err := strconv.Atoi(s); err == nil && k > 0 {
			limit = time.Duration(k) * time.Second
		}
	}
	cpu := func() time.Duration {
		var ru syscall.Rusage
		if err := syscall.Getrusage(syscall.RUSAGE_SELF, &ru); err != nil {
			return 0
		}
		return time.Duration(ru.Utime.Nano() + ru.Stime.Nano())
	}
	start, startWall := cpu(), time.Now()
	done := make(chan struct{})
	go func() {
		tick := time.NewTicker(2 * time.Second)
		defer tick.Stop()
		for {
			select {
			case <-done:
				return
			case <-tick.C:
				if used := cpu() - start; used > limit || time.Since(startWall) > 12*limit {
					fmt.Fprintf(os.Stderr, "fatal error: %s run %d exceeded the per-run time limit of %v (CPU time %v, wall %v)\n", prop, run, limit, used.Round(time.Second), time.Since(startWall).Round(time.Second))
					os.Exit(3)
				}
			}
		}
	}()
	return func() { close(done) }
}
