package engine

import "container/heap"

// SimQ is the discrete-event core used by the world generators: a priority
// queue ordered by (simulated time, global sequence number). When nothing is
// runnable at the current instant the clock jumps to the next event. The
// library under test reads no clock; simulated time only shapes
// interleavings (think times, link latencies, flush and checkpoint timers).
type SimQ struct {
	Now int64 // microseconds
	seq uint64
	h   evHeap
}

type simEvent struct {
	at  int64
	seq uint64
	run func()
}

type evHeap []simEvent

func (h evHeap) Len() int { return len(h) }
func (h evHeap) Less(i, j int) bool {
	if h[i].at != h[j].at {
		return h[i].at < h[j].at
	}
	return h[i].seq < h[j].seq
}
func (h evHeap) Swap(i, j int)       { h[i], h[j] = h[j], h[i] }
func (h *evHeap) Push(x interface{}) { *h = append(*h, x.(simEvent)) }
func (h *evHeap) Pop() interface{} {
	old := *h
	n := len(old)
	x := old[n-1]
	*h = old[:n-1]
	return x
}

func (q *SimQ) After(d int64, f func()) {
	if d < 0 {
		d = 0
	}
	q.seq++
	heap.Push(&q.h, simEvent{q.Now + d, q.seq, f})
}

// Step runs the next event; false when the queue is empty.
func (q *SimQ) Step() bool {
	if q.h.Len() == 0 {
		return false
	}
	ev := heap.Pop(&q.h).(simEvent)
	q.Now = ev.at
	ev.run()
	return true
}

func (q *SimQ) Len() int { return q.h.Len() }
