// maporder generates a `go build -overlay` that puts every `range <map>` loop
// of the library under the simulator's control.
//
// For every `for k, v := range m` whose m has map type (found type-directed
// with go/packages, not by name) in the non-generated, non-test files of the
// module at -repo, a rewritten copy of the file is written to -out:
//
//	for _, k := range verifOrderedKeys(m) { v, verifOK := m[k]; if !verifOK { continue }; ...
//
// plus one added file per package defining verifOrderedKeys and
//
//	var VerifMapOrder func(keys []int)
//
// nil means ascending keys. Any order is a legal behaviour of the original
// program, so behaviours(rewritten) is a subset of behaviours(original). The
// !verifOK guard preserves Go's delete-during-range semantics. /repo is not
// touched. Prints the number of rewritten sites.
package main

import (
	"encoding/json"
	"flag"
	"fmt"
	"go/ast"
	"go/token"
	"go/types"
	"os"
	"path/filepath"
	"sort"
	"strings"

	"golang.org/x/tools/go/packages"
)

type edit struct {
	start, end int
	text       string
}

func main() {
	repo := flag.String("repo", "/repo", "module root")
	out := flag.String("out", "", "output directory")
	verbose := flag.Bool("v", false, "list sites on stderr")
	flag.Parse()
	if *out == "" {
		fmt.Fprintln(os.Stderr, "usage: maporder -repo DIR -out DIR")
		os.Exit(2)
	}
	if err := os.MkdirAll(*out, 0o755); err != nil {
		fail(err)
	}
	cfg := &packages.Config{
		Mode:       packages.NeedName | packages.NeedFiles | packages.NeedSyntax | packages.NeedTypes | packages.NeedTypesInfo | packages.NeedCompiledGoFiles | packages.NeedImports | packages.NeedDeps,
		Dir:        *repo,
		Env:        append(os.Environ(), "GOFLAGS=-mod=mod", "GOPROXY=off", "GOSUMDB=off"),
		BuildFlags: []string{"-tags=verif"},
	}
	pkgs, err := packages.Load(cfg, "./...")
	if err != nil {
		fail(err)
	}
	if hasErrors(pkgs) {
		// the tagged introspection hook may no longer compile (a renamed field): the library itself is what counts
		cfg.BuildFlags = nil
		if pkgs, err = packages.Load(cfg, "./..."); err != nil {
			fail(err)
		}
	}
	replace := map[string]string{}
	sites := 0
	for _, pkg := range pkgs {
		if len(pkg.Errors) > 0 {
			fail(fmt.Errorf("package %s does not type-check: %v", pkg.PkgPath, pkg.Errors[0]))
		}
		pkgSites := 0
		for i, file := range pkg.Syntax {
			path := pkg.CompiledGoFiles[i]
			if strings.HasSuffix(path, "_test.go") || strings.HasSuffix(path, ".pb.go") || strings.HasSuffix(path, "proto_builder.go") {
				continue
			}
			src, err := os.ReadFile(path)
			if err != nil {
				fail(err)
			}
			var edits []edit
			ast.Inspect(file, func(n ast.Node) bool {
				rs, ok := n.(*ast.RangeStmt)
				if !ok {
					return true
				}
				tv, ok := pkg.TypesInfo.Types[rs.X]
				if !ok {
					return true
				}
				mt, ok := tv.Type.Underlying().(*types.Map)
				if !ok {
					return true
				}
				if b, ok := mt.Key().Underlying().(*types.Basic); !ok || b.Info()&types.IsInteger == 0 {
					return true // only integer-keyed maps are ordered by the seam
				}
				if rs.Tok != token.DEFINE || !simpleExpr(rs.X) {
					return true
				}
				pos := func(p token.Pos) int { return pkg.Fset.Position(p).Offset }
				x := string(src[pos(rs.X.Pos()):pos(rs.X.End())])
				key := "verifK"
				if id, ok := rs.Key.(*ast.Ident); ok && id.Name != "_" {
					key = id.Name
				}
				val := ""
				if rs.Value != nil {
					if id, ok := rs.Value.(*ast.Ident); ok && id.Name != "_" {
						val = id.Name
					}
				}
				header := fmt.Sprintf("for _, %s := range verifOrderedKeys(%s) {", key, x)
				if val != "" {
					header += fmt.Sprintf(" %s, verifOK := %s[%s]; if !verifOK { continue };", val, x, key)
				} else {
					header += fmt.Sprintf(" if _, verifOK := %s[%s]; !verifOK { continue };", x, key)
				}
				if key == "verifK" {
					header += " _ = verifK;"
				}
				edits = append(edits, edit{pos(rs.For), pos(rs.Body.Lbrace) + 1, header})
				if *verbose {
					fmt.Fprintf(os.Stderr, "site %s\n", pkg.Fset.Position(rs.For))
				}
				return true
			})
			if len(edits) == 0 {
				continue
			}
			sort.Slice(edits, func(i, j int) bool { return edits[i].start > edits[j].start })
			for _, e := range edits {
				src = append(src[:e.start:e.start], append([]byte(e.text), src[e.end:]...)...)
			}
			rel, _ := filepath.Rel(*repo, path)
			dst := filepath.Join(*out, strings.ReplaceAll(rel, string(filepath.Separator), "__"))
			if err := os.WriteFile(dst, src, 0o644); err != nil {
				fail(err)
			}
			replace[path] = dst
			pkgSites += len(edits)
		}
		if pkgSites > 0 {
			dir := filepath.Dir(pkg.CompiledGoFiles[0])
			helper := filepath.Join(*out, strings.ReplaceAll(pkg.PkgPath, "/", "__")+"__verif_maporder_gen.go")
			if err := os.WriteFile(helper, []byte(helperSrc(pkg.Name)), 0o644); err != nil {
				fail(err)
			}
			replace[filepath.Join(dir, "verif_maporder_gen.go")] = helper
			sites += pkgSites
		}
	}
	b, _ := json.MarshalIndent(map[string]interface{}{"Replace": replace}, "", " ")
	if err := os.WriteFile(filepath.Join(*out, "overlay.json"), b, 0o644); err != nil {
		fail(err)
	}
	fmt.Println(sites)
}

func hasErrors(pkgs []*packages.Package) bool {
	for _, p := range pkgs {
		if len(p.Errors) > 0 {
			return true
		}
	}
	return false
}

// simpleExpr: identifiers and selector chains can be evaluated repeatedly
// without side effects.
func simpleExpr(e ast.Expr) bool {
	switch t := e.(type) {
	case *ast.Ident:
		return true
	case *ast.SelectorExpr:
		return simpleExpr(t.X)
	case *ast.ParenExpr:
		return simpleExpr(t.X)
	}
	return false
}

func helperSrc(pkg string) string {
	return `// Code generated by /verif/tools/maporder for the build overlay. Not part of the repository.

package ` + pkg + `

import "sort"

// VerifMapOrder, when set by the simulator, reorders the ascending keys of a
// map in place; it decides the iteration order of every rewritten range loop.
var VerifMapOrder func(keys []int)

func verifOrderedKeys[K ~int | ~int8 | ~int16 | ~int32 | ~int64 | ~uint | ~uint8 | ~uint16 | ~uint32 | ~uint64, V any](m map[K]V) []K {
	ints := make([]int, 0, len(m))
	for k := range m {
		ints = append(ints, int(k))
	}
	sort.Ints(ints)
	if VerifMapOrder != nil {
		VerifMapOrder(ints)
	}
	keys := make([]K, len(ints))
	for i, k := range ints {
		keys[i] = K(k)
	}
	return keys
}
`
}

func fail(err error) {
	fmt.Fprintln(os.Stderr, "maporder:", err)
	os.Exit(1)
}
